//go:build linux

package gnet

// C15 (policy half) — load balancing follows the selected policy. Internal test
// placed by the /verif overlay: balancers over bare event loops.

import (
	"fmt"
	"hash/crc32"
	"net"
	"strings"
	"testing"

	"pgregory.net/rapid"

	"github.com/panjf2000/gnet/v2/verifx/vstat"
)

type c15addr struct{ network, s string }

func (a c15addr) Network() string { return a.network }
func (a c15addr) String() string  { return a.s }

var c15tab = crc32.MakeTable(crc32.IEEE)

// c15forge appends four bytes to prefix so that the IEEE CRC-32 of the result is target.
func c15forge(prefix []byte, target uint32) []byte {
	var rev [256]uint32
	for i := 0; i < 256; i++ {
		rev[c15tab[i]>>24] = c15tab[i]<<8 ^ uint32(i)
	}
	reg := ^crc32.Update(0, c15tab, prefix) // the register after the prefix
	v := ^target                              // the register wanted after four more bytes
	for i := 0; i < 4; i++ {
		v = v<<8 ^ rev[v>>24] // one step backwards over a zero byte
	}
	x := v ^ reg
	return append(append([]byte(nil), prefix...), byte(x), byte(x>>8), byte(x>>16), byte(x>>24))
}

func c15genAddr(t *rapid.T) net.Addr {
	switch rapid.IntRange(0, 6).Draw(t, "addrKind") {
	case 6:
		// an address string whose CRC-32 (what Source-Addr-Hash reduces it to) is a boundary value of
		// the 32-bit range: a drawn prefix plus four forged bytes (a Unix path may hold any bytes)
		prefix := rapid.SampledFrom([]string{"", "/tmp/", "@abstract-", "127.0.0.1:"}).Draw(t, "prefix") + rapid.StringN(0, 6, 6).Draw(t, "stem")
		target := rapid.SampledFrom([]uint32{0, 1, 0x7FFFFFFF, 0x80000000, 0x80000000, 0x80000001, 0xFFFFFFFE, 0xFFFFFFFF}).Draw(t, "crc")
		name := string(c15forge([]byte(prefix), target))
		if crc32.ChecksumIEEE([]byte(name)) != target {
			t.Fatalf("VERIF-INFRA forged string has CRC %#x, want %#x", crc32.ChecksumIEEE([]byte(name)), target)
		}
		return &net.UnixAddr{Name: name, Net: "unix"}
	case 0:
		return &net.TCPAddr{IP: net.IPv4(byte(rapid.IntRange(0, 255).Draw(t, "a")), byte(rapid.IntRange(0, 255).Draw(t, "b")), 0, 1), Port: rapid.IntRange(0, 65535).Draw(t, "port")}
	case 1:
		return &net.TCPAddr{IP: net.ParseIP("fe80::1"), Port: rapid.IntRange(0, 65535).Draw(t, "port"), Zone: rapid.SampledFrom([]string{"", "eth0", "lo", "7"}).Draw(t, "zone")}
	case 2:
		return &net.UnixAddr{Name: rapid.SampledFrom([]string{"", "@", "/tmp/a.sock", "/tmp/b.sock", "rel.sock"}).Draw(t, "name"), Net: "unix"}
	case 3:
		return &net.UnixAddr{Name: "", Net: "unix"} // unnamed Unix-domain client
	case 4:
		return c15addr{"x", rapid.String().Draw(t, "s")}
	default:
		return &net.UDPAddr{IP: net.IP(rapid.SliceOfN(rapid.Byte(), 16, 16).Draw(t, "ip6")), Port: rapid.IntRange(0, 65535).Draw(t, "port")}
	}
}

func TestC15Policy(t *testing.T) {
	st := vstat.New("C15.policy")
	defer st.Flush()
	rapid.Check(t, func(t *rapid.T) {
		n := rapid.OneOf(rapid.IntRange(1, 8), rapid.IntRange(1, 256), rapid.SampledFrom([]int{1, 2, 255, 256})).Draw(t, "loops")
		policy := rapid.SampledFrom([]string{"rr", "lc", "sah"}).Draw(t, "policy")
		var lb loadBalancer
		switch policy {
		case "rr":
			lb = new(roundRobinLoadBalancer)
		case "lc":
			lb = new(leastConnectionsLoadBalancer)
		default:
			lb = new(sourceAddrHashLoadBalancer)
		}
		loops := make([]*eventloop, n)
		isLoop := map[*eventloop]int{}
		for i := range loops {
			el := new(eventloop)
			el.connections.init()
			lb.register(el)
			loops[i] = el
			isLoop[el] = i
			if el.idx != i {
				t.Fatalf("VERIF-KEY:lb-index loop registered as #%d got index %d", i, el.idx)
			}
		}
		if lb.len() != n {
			t.Fatalf("VERIF-KEY:lb-len len() = %d after registering %d loops", lb.len(), n)
		}
		var hist []string
		fail := func(key, format string, a ...any) {
			t.Fatalf("VERIF-KEY:%s %s\nhistory(%s, %d loops): %s", key, fmt.Sprintf(format, a...), policy, n, strings.Join(hist, "; "))
		}
		live := map[int][]*conn{} // per loop
		nextFD := 10
		calls := 0
		seenAddr := map[string]int{}
		steps := rapid.IntRange(1, 3*n+20).Draw(t, "steps")
		if rapid.Bool().Draw(t, "long") {
			steps += 3 * n
		}
		if steps > 600 {
			steps = 600
		}
		for s := 0; s < steps; s++ {
			switch rapid.SampledFrom([]string{"next", "next", "next", "close", "openElsewhere"}).Draw(t, "op") {
			case "next":
				addr := c15genAddr(t)
				if policy != "sah" && rapid.IntRange(0, 9).Draw(t, "nilAddr") == 0 {
					addr = nil // the client side passes nil
				}
				el := lb.next(addr)
				idx, ok := isLoop[el]
				if !ok {
					fail("lb-foreign", "next(%v) returned something that is not a registered loop", addr)
				}
				hist = append(hist, fmt.Sprintf("next->%d", idx))
				switch policy {
				case "rr":
					if idx != calls%n {
						fail("lb-rr", "call #%d returned loop %d, want %d", calls, idx, calls%n)
					}
				case "lc":
					min := int32(1 << 30)
					for _, l := range loops {
						if c := l.countConn(); c < min {
							min = c
						}
					}
					if el.countConn() != min {
						fail("lb-lc", "returned loop %d holds %d connections, the minimum is %d", idx, el.countConn(), min)
					}
				default:
					key := addr.String()
					if prev, ok := seenAddr[key]; ok && prev != idx {
						fail("lb-sah", "address %q was assigned to loop %d before and to loop %d now", key, prev, idx)
					}
					seenAddr[key] = idx
					// an equal string through a different net.Addr value
					if again := lb.next(c15addr{"other", key}); isLoop[again] != idx {
						fail("lb-sah", "address string %q maps to loop %d and to loop %d", key, idx, isLoop[again])
					}
				}
				calls++
				// the accepted connection is registered on the chosen loop
				c := &conn{fd: nextFD}
				nextFD++
				el.connections.addConn(c, el.idx)
				live[idx] = append(live[idx], c)
			case "close":
				i := rapid.IntRange(0, n-1).Draw(t, "loop")
				if len(live[i]) == 0 {
					continue
				}
				k := rapid.IntRange(0, len(live[i])-1).Draw(t, "k")
				loops[i].connections.delConn(live[i][k])
				live[i] = append(live[i][:k], live[i][k+1:]...)
				hist = append(hist, fmt.Sprintf("close@%d", i))
			default:
				// a connection enrolled directly on a chosen loop (EventLoop.Register)
				i := rapid.IntRange(0, n-1).Draw(t, "loop")
				c := &conn{fd: nextFD}
				nextFD++
				loops[i].connections.addConn(c, i)
				live[i] = append(live[i], c)
				hist = append(hist, fmt.Sprintf("open@%d", i))
			}
		}
		if policy == "rr" && calls >= n {
			// after k*N accepts every loop has received exactly k (checked per call above);
			// make the count explicit for the first complete rounds
			_ = calls
		}
		st.Eval()
		nt := n >= 2 && calls >= 2*n
		if nt {
			st.NonTrivial(vstat.Hash(policy, n, strings.Join(hist, ";")))
		}
		st.Label(policy)
		if st.WantSample(nt) {
			h := hist
			if len(h) > 60 {
				h = h[:60]
			}
			st.Sample(nt, fmt.Sprintf("%s over %d loops: %s", policy, n, strings.Join(h, " ")))
		}
	})
}
