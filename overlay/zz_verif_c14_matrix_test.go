//go:build linux && gc_opt

package gnet

import "fmt"

// registryConsistent: every live conn's stored position points at itself.
func registryConsistent(cm *connMatrix, c *conn) string {
	g, ok := cm.fd2gfd[c.fd]
	if !ok {
		return fmt.Sprintf("fd2gfd has no entry for live fd %d", c.fd)
	}
	if g != c.gfd {
		return fmt.Sprintf("fd2gfd[%d] differs from the connection's own gfd (row/col %d/%d vs %d/%d)", c.fd, g.ConnMatrixRow(), g.ConnMatrixColumn(), c.gfd.ConnMatrixRow(), c.gfd.ConnMatrixColumn())
	}
	row := cm.table[g.ConnMatrixRow()]
	if row == nil || row[g.ConnMatrixColumn()] != c {
		return fmt.Sprintf("table[%d][%d] does not hold live fd %d", g.ConnMatrixRow(), g.ConnMatrixColumn(), c.fd)
	}
	if c.gfd.Fd() != c.fd {
		return fmt.Sprintf("gfd of fd %d carries fd %d", c.fd, c.gfd.Fd())
	}
	return ""
}
