//go:build linux && gc_opt

package gnet

import "fmt"

// registryConsistent: every live conn's stored position points at itself.
func registryConsistent(cm *connMatrix, c *conn) string {
	g, ok := cm.fd2gfd[c.fd]
	if !ok {
		return fmt.Sprintf("fd2gfd has no entry for live fd %d", c.fd)
	}
	if g != c.gfd {
		return fmt.Sprintf("fd2gfd[%d] differs from the connection's own gfd (row/col %d/%d vs %d/%d)", c.fd, g.ConnMatrixRow(), g.ConnMatrixColumn(), c.gfd.ConnMatrixRow(), c.gfd.ConnMatrixColumn())
	}
	row := cm.table[g.ConnMatrixRow()]
	if row == nil || row[g.ConnMatrixColumn()] != c {
		return fmt.Sprintf("table[%d][%d] does not hold live fd %d", g.ConnMatrixRow(), g.ConnMatrixColumn(), c.fd)
	}
	if c.gfd.Fd() != c.fd {
		return fmt.Sprintf("gfd of fd %d carries fd %d", c.fd, c.gfd.Fd())
	}
	return ""
}

// connAt returns the live connection stored at a matrix position (nil if none): lets the
// generator aim at positions - the edges of a row - instead of at registration order.
func connAt(cm *connMatrix, row, col int) *conn {
	if row < 0 || row >= len(cm.table) || cm.table[row] == nil || col < 0 || col >= len(cm.table[row]) {
		return nil
	}
	return cm.table[row][col]
}

// frontier returns the row of the next free slot.
func frontier(cm *connMatrix) int { return cm.row }
