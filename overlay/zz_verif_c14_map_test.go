//go:build linux && !gc_opt

package gnet

import "fmt"

// registryConsistent: internal consistency of the map registry for a live conn.
func registryConsistent(cm *connMatrix, c *conn) string {
	if cm.connMap[c.fd] != c {
		return fmt.Sprintf("connMap[%d] does not hold the live connection", c.fd)
	}
	if c.gfd.Fd() != c.fd {
		return fmt.Sprintf("gfd of fd %d carries fd %d", c.fd, c.gfd.Fd())
	}
	return ""
}

// the map registry has no positions
func connAt(cm *connMatrix, row, col int) *conn { return nil }
func frontier(cm *connMatrix) int             { return 0 }
