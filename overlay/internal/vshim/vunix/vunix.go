// Package vunix mirrors the golang.org/x/sys/unix functions the framework uses on
// its I/O path; each wrapper consults internal/vshim first.
package vunix

import (
	"golang.org/x/sys/unix"

	"github.com/panjf2000/gnet/v2/internal/vshim"
)

func Read(fd int, p []byte) (int, error) {
	if e, ok := vshim.Check("read", fd); ok {
		return -1, e
	}
	if n, ok := vshim.Shorten(true, fd, len(p)); ok {
		if n == 0 {
			return -1, unix.EAGAIN
		}
		p = p[:n]
	}
	return unix.Read(fd, p)
}

func Write(fd int, p []byte) (int, error) {
	if e, ok := vshim.Check("write", fd); ok {
		return -1, e
	}
	if n, ok := vshim.Shorten(false, fd, len(p)); ok {
		if n == 0 {
			return -1, unix.EAGAIN
		}
		p = p[:n]
	}
	n, err := unix.Write(fd, p)
	vshim.Took(fd, n)
	return n, err
}

func Writev(fd int, iov [][]byte) (int, error) {
	if e, ok := vshim.Check("writev", fd); ok {
		return -1, e
	}
	total := 0
	for _, b := range iov {
		total += len(b)
	}
	if m, ok := vshim.Shorten(false, fd, total); ok {
		if m == 0 {
			return -1, unix.EAGAIN
		}
		// hand the kernel a prefix of m bytes (a real short writev)
		var cut [][]byte
		for _, b := range iov {
			if m <= 0 {
				break
			}
			if len(b) > m {
				b = b[:m]
			}
			cut = append(cut, b)
			m -= len(b)
		}
		iov = cut
	}
	n, err := unix.Writev(fd, iov)
	vshim.Took(fd, n)
	return n, err
}

// Close performs the close and then reports the injected failure (Linux releases
// the descriptor even when close(2) fails).
func Close(fd int) error {
	e, ok := vshim.Check("close", fd)
	vshim.Closed(fd)
	err := unix.Close(fd)
	if err == unix.EBADF && fd >= 0 {
		// the framework closed a number that is not open: it has closed it before (or never owned it)
		vshim.ClosedNotOpen(fd)
	}
	if ok {
		return e
	}
	return err
}

func Accept4(fd int, flags int) (int, unix.Sockaddr, error) {
	if e, ok := vshim.Check("accept4", fd); ok {
		return -1, nil, e
	}
	nfd, sa, err := unix.Accept4(fd, flags)
	if err == nil {
		vshim.Accepted(nfd)
	}
	return nfd, sa, err
}

func EpollCtl(epfd int, op int, fd int, event *unix.EpollEvent) error {
	name := map[int]string{unix.EPOLL_CTL_ADD: "epoll_ctl_add", unix.EPOLL_CTL_MOD: "epoll_ctl_mod", unix.EPOLL_CTL_DEL: "epoll_ctl_del"}[op]
	if e, ok := vshim.Check(name, fd); ok {
		return e
	}
	return unix.EpollCtl(epfd, op, fd, event)
}

func EpollWait(epfd int, events []unix.EpollEvent, msec int) (int, error) {
	if e, ok := vshim.Check("epoll_wait", epfd); ok {
		return -1, e
	}
	return unix.EpollWait(epfd, events, msec)
}

func Recvfrom(fd int, p []byte, flags int) (int, unix.Sockaddr, error) {
	if e, ok := vshim.Check("recvfrom", fd); ok {
		return -1, nil, e
	}
	return unix.Recvfrom(fd, p, flags)
}

func Sendto(fd int, p []byte, flags int, to unix.Sockaddr) error {
	if e, ok := vshim.Check("sendto", fd); ok {
		return e
	}
	return unix.Sendto(fd, p, flags, to)
}

func Send(fd int, p []byte, flags int) error {
	if e, ok := vshim.Check("send", fd); ok {
		return e
	}
	return unix.Send(fd, p, flags)
}
