// Package vshim lets a /verif harness inject system-call failures into the
// framework and keep a ledger of the descriptors it accepts and closes. The
// framework's unix.* calls on the I/O path are re-qualified to internal/vshim/vunix
// by /verif/tools/instr at check time; without an installed plan the wrappers
// pass straight through.
package vshim

import (
	"runtime"
	"strings"
	"sync"
	"sync/atomic"

	"golang.org/x/sys/unix"
)

// Fault: the K-th call at Site (on descriptor Fd, or on any when Fd < 0) fails with Errno.
type Fault struct {
	Site      string // "<caller>/<syscall>", e.g. "(*eventloop).read/read", "(*Poller).AddRead/epoll_ctl_add"
	Fd        int
	K         int
	Errno     unix.Errno
	seen      int32
	Delivered int32
}

// Plan is a set of faults plus the descriptor ledger.
type Plan struct {
	Faults []*Fault
	mu     sync.Mutex
	owned  map[int]bool // accepted and not yet closed
	ever   map[int]bool
	// BadCloses: closes of a descriptor the framework accepted earlier and already closed
	BadCloses []int
	// NotOpenCloses: close(2) calls of the framework on a number that was not open (EBADF)
	NotOpenCloses []int
	Sites     map[string]int // every site seen (observability of the enumeration)
	IOonClosed []string      // read/write on an accepted descriptor after its close, before the number was handed out again

	// Real short transfers: on tracked descriptors the wrapper hands a shorter buffer to the
	// kernel (percent of the offered length, at least one byte; 0 = report EAGAIN without calling).
	ShortReads  []int
	ShortWrites []int
	tracked     map[int]bool
	taken       map[int]int64 // bytes the kernel accepted per tracked descriptor
	ri, wi      int
	ShortHits   int64
}

var cur atomic.Pointer[Plan]

// Install activates p (nil deactivates).
func Install(p *Plan) {
	if p != nil {
		p.mu.Lock()
		if p.owned == nil {
			p.owned, p.ever, p.Sites = map[int]bool{}, map[int]bool{}, map[string]int{}
			p.tracked, p.taken = map[int]bool{}, map[int]int64{}
		}
		p.mu.Unlock()
	}
	cur.Store(p)
}

// AddFault adds a fault to an installed plan.
func (p *Plan) AddFault(f *Fault) {
	p.mu.Lock()
	p.Faults = append(p.Faults, f)
	p.mu.Unlock()
}

// Owned returns the accepted descriptors that have not been closed.
func (p *Plan) Owned() []int {
	p.mu.Lock()
	defer p.mu.Unlock()
	var out []int
	for fd := range p.owned {
		out = append(out, fd)
	}
	return out
}

func site(sysc string) string {
	var pcs [8]uintptr
	n := runtime.Callers(3, pcs[:])
	frames := runtime.CallersFrames(pcs[:n])
	for {
		fr, more := frames.Next()
		fn := fr.Function
		if !strings.Contains(fn, "/vshim") && !strings.Contains(fn, "gnet/v2/pkg/io.") && !strings.Contains(fn, "pkg/socket.sysAccept") && !strings.Contains(fn, "pkg/socket.Accept") && !strings.Contains(fn, "netpoll.vEpoll") {
			if i := strings.LastIndex(fn, "/"); i >= 0 {
				fn = fn[i+1:]
			}
			if i := strings.Index(fn, "."); i >= 0 {
				fn = fn[i+1:]
			}
			return fn + "/" + sysc
		}
		if !more {
			return "?/" + sysc
		}
	}
}

// Check is called by every wrapper before the real system call.
func Check(sysc string, fd int) (unix.Errno, bool) {
	p := cur.Load()
	if p == nil {
		return 0, false
	}
	s := site(sysc)
	p.mu.Lock()
	p.Sites[s]++
	if (sysc == "read" || sysc == "write" || sysc == "writev") && p.ever[fd] && !p.owned[fd] {
		if len(p.IOonClosed) < 8 {
			p.IOonClosed = append(p.IOonClosed, s)
		}
	}
	var hit *Fault
	for _, f := range p.Faults {
		if f.Site == s && (f.Fd < 0 || f.Fd == fd) && atomic.LoadInt32(&f.Delivered) == 0 {
			if int(atomic.AddInt32(&f.seen, 1)) == f.K {
				hit = f
				break
			}
		}
	}
	p.mu.Unlock()
	if hit != nil {
		atomic.StoreInt32(&hit.Delivered, 1)
		return hit.Errno, true
	}
	return 0, false
}

// Accepted records a descriptor the framework got from accept.
func Accepted(fd int) {
	if p := cur.Load(); p != nil && fd >= 0 {
		p.mu.Lock()
		p.owned[fd] = true
		p.ever[fd] = true
		p.mu.Unlock()
	}
}

// Closed records a close by the framework.
func Closed(fd int) {
	if p := cur.Load(); p != nil {
		p.mu.Lock()
		if p.ever[fd] && !p.owned[fd] {
			p.BadCloses = append(p.BadCloses, fd)
		}
		delete(p.owned, fd)
		p.mu.Unlock()
	}
}

// ClosedNotOpen records a close(2) by the framework that the kernel answered with EBADF.
func ClosedNotOpen(fd int) {
	if p := cur.Load(); p != nil {
		p.mu.Lock()
		p.NotOpenCloses = append(p.NotOpenCloses, fd)
		p.mu.Unlock()
	}
}

// Track makes fd subject to short transfers and byte accounting (and resets its count).
func (p *Plan) Track(fd int) {
	p.mu.Lock()
	p.tracked[fd] = true
	p.taken[fd] = 0
	p.mu.Unlock()
}

// Untrack stops short transfers and accounting on fd.
func (p *Plan) Untrack(fd int) {
	p.mu.Lock()
	delete(p.tracked, fd)
	p.mu.Unlock()
}

// Taken returns the bytes the kernel has accepted on a tracked descriptor.
func (p *Plan) Taken(fd int) int64 {
	p.mu.Lock()
	defer p.mu.Unlock()
	return p.taken[fd]
}

// Shorten tells a wrapper how many of n offered bytes to pass to the kernel
// (ok=false: all of them; n=0: report EAGAIN instead of calling).
func Shorten(read bool, fd int, n int) (int, bool) {
	p := cur.Load()
	if p == nil || n <= 0 {
		return 0, false
	}
	p.mu.Lock()
	defer p.mu.Unlock()
	if !p.tracked[fd] {
		return 0, false
	}
	var pct int
	if read {
		if len(p.ShortReads) == 0 {
			return 0, false
		}
		pct = p.ShortReads[p.ri%len(p.ShortReads)]
		p.ri++
	} else {
		if len(p.ShortWrites) == 0 {
			return 0, false
		}
		pct = p.ShortWrites[p.wi%len(p.ShortWrites)]
		p.wi++
	}
	if pct >= 100 {
		return 0, false
	}
	p.ShortHits++
	if pct <= 0 {
		return 0, true
	}
	m := n * pct / 100
	if m < 1 {
		m = 1
	}
	return m, true
}

// Took records bytes accepted by the kernel on fd.
func Took(fd int, n int) {
	if n <= 0 {
		return
	}
	if p := cur.Load(); p != nil {
		p.mu.Lock()
		if p.tracked[fd] {
			p.taken[fd] += int64(n)
		}
		p.mu.Unlock()
	}
}
