// Package vunix wraps the wake-up related system calls of the pollers with
// scheduling points of internal/vsched. Unscheduled goroutines pass through.
package vunix

import (
	"golang.org/x/sys/unix"

	"github.com/panjf2000/gnet/v2/internal/vsched"
)

func Write(fd int, p []byte) (int, error) { vsched.Yield("write"); return unix.Write(fd, p) }
func Read(fd int, p []byte) (int, error)  { vsched.Yield("read"); return unix.Read(fd, p) }

// EpollWait: a scheduled thread never blocks in the kernel; a wait with an
// infinite timeout polls, and parks as idle while nothing is ready.
func EpollWait(epfd int, events []unix.EpollEvent, msec int) (int, error) {
	if !vsched.Scheduled() {
		return unix.EpollWait(epfd, events, msec)
	}
	vsched.Yield("epoll_wait")
	for {
		n, err := unix.EpollWait(epfd, events, 0)
		if n > 0 || err != nil || msec >= 0 {
			return n, err
		}
		if vsched.YieldIdle("epoll_wait(block)") {
			return -1, unix.EBADF
		}
	}
}
