// Package vunix wraps the wake-up related system calls of the pollers with
// scheduling points of internal/vsched. Unscheduled goroutines pass through.
package vunix

import (
	"sync/atomic"

	"golang.org/x/sys/unix"

	"github.com/panjf2000/gnet/v2/internal/vsched"
)

// FailWriteAt arms a fault: the k-th write from now fails with EAGAIN without reaching
// the kernel (an eventfd whose counter is at its ceiling); k <= 0 disarms.
func FailWriteAt(k int) {
	atomic.StoreInt32(&writesSeen, 0)
	atomic.StoreInt32(&failWriteAt, int32(k))
}

// WriteFaultDelivered reports whether the armed fault has struck.
func WriteFaultDelivered() bool {
	k := atomic.LoadInt32(&failWriteAt)
	return k > 0 && atomic.LoadInt32(&writesSeen) >= k
}

var failWriteAt, writesSeen int32

func Write(fd int, p []byte) (int, error) {
	vsched.Yield("write")
	if k := atomic.LoadInt32(&failWriteAt); k > 0 && atomic.AddInt32(&writesSeen, 1) == k {
		return -1, unix.EAGAIN
	}
	return unix.Write(fd, p)
}
func Read(fd int, p []byte) (int, error) { vsched.Yield("read"); return unix.Read(fd, p) }

// EpollWait: a scheduled thread never blocks in the kernel; a wait with an
// infinite timeout polls, and parks as idle while nothing is ready.
func EpollWait(epfd int, events []unix.EpollEvent, msec int) (int, error) {
	if !vsched.Scheduled() {
		return unix.EpollWait(epfd, events, msec)
	}
	vsched.Yield("epoll_wait")
	for {
		n, err := unix.EpollWait(epfd, events, 0)
		if n > 0 || err != nil || msec >= 0 {
			return n, err
		}
		if vsched.YieldIdle("epoll_wait(block)") {
			return -1, unix.EBADF
		}
	}
}
