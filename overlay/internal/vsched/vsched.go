// Package vsched is a cooperative scheduler for real goroutines, used by the
// /verif harnesses to make the interleaving of atomic operations and wake-up
// system calls an *input* of a property (C03 layer A, C13).
//
// Registered threads park at every Yield (inserted in front of sync/atomic
// operations and eventfd/epoll system calls by /verif/tools/instr); the driver
// resumes exactly one thread at a time, chosen by the caller-supplied function,
// so an execution is a pure function of the sequence of choices.
// Goroutines that are not registered pass straight through every hook.
package vsched

import (
	"fmt"
	"runtime"
	"runtime/debug"
	"strconv"
	"sync"
	"sync/atomic"
)

type thread struct {
	id     int
	goid   uint64
	name   string
	resume chan struct{}
	done   bool
	idle   bool // last step ended in a poll that would block
	polled bool // re-polled since the last progress of anybody, still nothing
	notes  map[string]int
}

// Sched is one exploration.
type Sched struct {
	mu        sync.Mutex
	byGoid    map[uint64]*thread
	threads   []*thread
	parked    chan *thread
	abort     bool
	Steps     int
	Clock     int64 // logical clock for histories (advanced by Tick)
	Trace     []string
	KeepTrace bool
	Panic     string // first panic raised inside a scheduled thread
	// FairAfter > 0 bounds unfairness: a thread that has been chosen FairAfter
	// times in a row while others are runnable is passed over once (round-robin).
	// Needed because correct code may busy-wait for a pre-empted thread.
	FairAfter int
	last      int
	streak    int
	// active is the thread that has been resumed and has not parked again. Exactly one
	// scheduled thread runs at a time and the driving goroutine is blocked meanwhile, so
	// a hook that finds active set was called by that thread; looking the caller up by
	// goroutine id (a stack walk) at every hook was 80% of the run time. Every 127th
	// hook still verifies the identity; a mismatch is a harness error (Misuse).
	active atomic.Pointer[thread]
	hooks  uint64
	Misuse string
}

var cur atomic.Pointer[Sched]

func goid() uint64 {
	var buf [64]byte
	n := runtime.Stack(buf[:], false)
	s := buf[len("goroutine "):n]
	i := 0
	for i < len(s) && s[i] != ' ' {
		i++
	}
	v, _ := strconv.ParseUint(string(s[:i]), 10, 64)
	return v
}

// New starts an exploration; only one may be active per process at a time.
func New() *Sched {
	s := &Sched{byGoid: map[uint64]*thread{}, parked: make(chan *thread), last: -1}
	cur.Store(s)
	return s
}

// Close ends the exploration (hooks become pass-through again).
func (s *Sched) Close() { cur.CompareAndSwap(s, nil) }

// Go registers fn as a scheduled thread; it starts parked and returns its id.
func (s *Sched) Go(name string, fn func()) int {
	t := &thread{id: len(s.threads), name: name, resume: make(chan struct{}), notes: map[string]int{}}
	s.threads = append(s.threads, t)
	ready := make(chan struct{})
	go func() {
		t.goid = goid()
		s.mu.Lock()
		s.byGoid[t.goid] = t
		s.mu.Unlock()
		close(ready)
		<-t.resume
		defer func() {
			if r := recover(); r != nil && s.Panic == "" {
				s.Panic = fmt.Sprintf("panic in thread %s: %v\n%s", t.name, r, debug.Stack())
			}
			t.done = true
			s.parked <- t
		}()
		fn()
	}()
	<-ready
	return t.id
}

func current() (*Sched, *thread) {
	s := cur.Load()
	if s == nil {
		return nil, nil
	}
	t := s.active.Load()
	if t == nil {
		return s, nil // nobody has been resumed: the caller is not a scheduled thread
	}
	if n := atomic.AddUint64(&s.hooks, 1); n%127 == 0 {
		if g := goid(); g != t.goid {
			s.mu.Lock()
			if s.Misuse == "" {
				s.Misuse = fmt.Sprintf("goroutine %d reached a scheduling hook while thread %s (goroutine %d) was running", g, t.name, t.goid)
			}
			s.mu.Unlock()
			return s, nil
		}
	}
	return s, t
}

// Yield is a scheduling point of the calling thread.
func Yield(site string) {
	s, t := current()
	if t == nil {
		return
	}
	t.idle = false
	if s.KeepTrace {
		s.Trace = append(s.Trace, t.name+":"+site)
	}
	s.parked <- t
	<-t.resume
}

// YieldIdle is the scheduling point of a thread that would block in a poll.
// It returns true when the exploration is being torn down.
func YieldIdle(site string) (abort bool) {
	s, t := current()
	if t == nil {
		return false
	}
	t.idle = true
	s.parked <- t
	<-t.resume
	return s.abort
}

// Scheduled reports whether the calling goroutine is a scheduled thread.
func Scheduled() bool { _, t := current(); return t != nil }

// Note counts an event for the calling scheduled thread (e.g. a failed CAS).
func Note(event string) {
	_, t := current()
	if t != nil {
		t.notes[event]++
	}
}

// Notes returns the event counters of thread id.
func (s *Sched) Notes(id int) map[string]int { return s.threads[id].notes }

// ThreadName returns the name of thread id.
func (s *Sched) ThreadName(id int) string { return s.threads[id].name }

// Self returns the id of the calling scheduled thread, or -1.
func Self() int {
	_, t := current()
	if t == nil {
		return -1
	}
	return t.id
}

// Tick advances and returns the logical clock (only one thread runs at a time,
// so no synchronisation is needed between scheduled threads).
func (s *Sched) Tick() int64 { return atomic.AddInt64(&s.Clock, 1) }

// ErrBudget is returned by Run when the step budget is exhausted.
var ErrBudget = fmt.Errorf("vsched: step budget exceeded")

// Run drives the threads. choose receives the ids of the runnable threads and
// the id of the thread that ran last (-1 at the start) and returns an index
// into the candidate list. Run returns quiescent=true when every live thread
// is idle and has re-polled without progress, false when all threads are done.
func (s *Sched) Run(choose func(cands []int, last int) int, maxSteps int) (quiescent bool, err error) {
	var cand []int
	for {
		cand = cand[:0]
		live := 0
		for _, t := range s.threads {
			if t.done {
				continue
			}
			live++
			if !t.idle || !t.polled {
				cand = append(cand, t.id)
			}
		}
		if len(cand) == 0 {
			return live > 0, nil
		}
		if s.Panic != "" {
			return false, nil
		}
		s.Steps++
		if s.Steps > maxSteps {
			return false, ErrBudget
		}
		i := 0
		if len(cand) > 1 {
			i = choose(cand, s.last)
			if i < 0 || i >= len(cand) {
				i = 0
			}
		}
		if s.FairAfter > 0 && len(cand) > 1 && cand[i] == s.last && s.streak >= s.FairAfter {
			i = (i + 1) % len(cand)
		}
		t := s.threads[cand[i]]
		if t.id == s.last {
			s.streak++
		} else {
			s.streak = 1
		}
		s.last = t.id
		wasIdle := t.idle
		s.active.Store(t)
		t.resume <- struct{}{}
		<-s.parked
		s.active.Store(nil)
		if wasIdle && t.idle && !t.done {
			t.polled = true
		} else {
			for _, o := range s.threads {
				o.polled = false
			}
		}
	}
}

// Wake clears the "polled" marks, to be called after the unscheduled test
// goroutine did something that may have made an idle thread runnable.
func (s *Sched) Wake() {
	for _, o := range s.threads {
		o.polled = false
	}
}

// Finish aborts: idle threads see abort=true from YieldIdle and must exit;
// running threads are resumed until they finish.
func (s *Sched) Finish(maxSteps int) error {
	s.abort = true
	for n := 0; ; n++ {
		live := 0
		for _, t := range s.threads {
			if !t.done {
				live++
				s.active.Store(t)
				t.resume <- struct{}{}
				<-s.parked
				s.active.Store(nil)
			}
		}
		if live == 0 {
			return nil
		}
		if n > maxSteps {
			return ErrBudget
		}
	}
}

// Live returns the number of unfinished threads.
func (s *Sched) Live() int {
	n := 0
	for _, t := range s.threads {
		if !t.done {
			n++
		}
	}
	return n
}
