package byteslice

// C20 (size-class function of the byte-slice pool). Internal test placed here by
// the /verif overlay; it is not part of the repository.

import (
	"fmt"
	"math"
	"testing"

	"pgregory.net/rapid"

	"github.com/panjf2000/gnet/v2/verifx/vstat"
)

// refIndex: least c with 2^c >= n (n >= 1).
func refIndex(n uint32) uint32 {
	c := uint32(0)
	for p := uint64(1); p < uint64(n); p *= 2 {
		c++
	}
	return c
}

func TestC20BytesliceIndex(t *testing.T) {
	st := vstat.New("C20.byteslice_index")
	defer st.Flush()
	// boundaries: 2^k + d for every class
	for k := 0; k <= 31; k++ {
		for d := -3; d <= 3; d++ {
			v := int64(1)<<k + int64(d)
			if v < 1 || v > math.MaxInt32+1 {
				continue
			}
			n := uint32(v)
			st.Eval()
			st.NonTrivial(uint64(n))
			if g, w := index(n), refIndex(n); g != w {
				t.Fatalf("VERIF-KEY:bs-index index(%d) = %d, want %d", n, g, w)
			}
		}
	}
	rapid.Check(t, func(rt *rapid.T) {
		n := uint32(rapid.OneOf(rapid.IntRange(1, math.MaxInt32), rapid.IntRange(1, 1<<20)).Draw(rt, "n"))
		st.Eval()
		if g, w := index(n), refIndex(n); g != w {
			rt.Fatalf("VERIF-KEY:bs-index index(%d) = %d, want %d", n, g, w)
		}
	})
	// through the public API: capacity handed out is the class capacity
	var p Pool
	for _, n := range []int{1, 2, 3, 4, 5, 7, 8, 9, 511, 512, 513, 1023, 1024, 1025, 4095, 4096, 4097, 65535, 65536, 65537, 1<<20 - 1, 1 << 20, 1<<20 + 1} {
		b := p.Get(n)
		st.Eval()
		if len(b) != n || cap(b) != 1<<refIndex(uint32(n)) {
			t.Fatalf("VERIF-KEY:bs-get-cap Get(%d) has len %d cap %d, want len %d cap %d", n, len(b), cap(b), n, 1<<refIndex(uint32(n)))
		}
	}
	st.Sample(true, fmt.Sprintf("index(1<<31)=%d index(1<<31-1)=%d index(1)=%d index(3)=%d", index(1<<31), index(1<<31-1), index(1), index(3)))
}

// Exhaustive over 1..2^31 (thorough tier, sharded).
func TestC20BytesliceIndexSweep(t *testing.T) {
	st := vstat.New("C20.byteslice_index_sweep")
	defer st.Flush()
	k, ns := vstat.Shard()
	lo, hi := uint64(1), uint64(1)<<31
	if !vstat.Thorough() {
		hi = 1 << 24
	}
	per := (hi - lo + 1) / uint64(ns)
	a := lo + per*uint64(k)
	b := a + per - 1
	if k == ns-1 {
		b = hi
	}
	c := refIndex(uint32(a))
	var nt int64
	for n := a; n <= b; n++ {
		if n > uint64(1)<<c {
			c++
		}
		if g := index(uint32(n)); g != c {
			t.Fatalf("VERIF-KEY:bs-index index(%d) = %d, want %d", n, g, c)
		}
		if n-(uint64(1)<<c>>1) <= 3 || (uint64(1)<<c)-n <= 3 {
			nt++
			st.NonTrivial(n)
		}
	}
	st.EvalN(int64(b - a + 1))
	st.LabelN("near_power", nt)
	st.Set("exhaustive", vstat.Thorough())
	st.Sample(true, fmt.Sprintf("index() checked on every size in [%d,%d]", a, b))
}
