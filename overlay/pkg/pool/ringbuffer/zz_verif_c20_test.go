package ringbuffer

// C20 (size-class function of the ring-buffer pool): monotone and within range.

import (
	"fmt"
	"math"
	"testing"

	"pgregory.net/rapid"

	"github.com/panjf2000/gnet/v2/verifx/vstat"
)

func TestC20RingPoolIndex(t *testing.T) {
	st := vstat.New("C20.ringpool_index")
	defer st.Flush()
	prev := index(0)
	for k := 0; k <= 62; k++ {
		for d := -2; d <= 2; d++ {
			n := (1 << k) + d
			if n < 0 {
				continue
			}
			st.Eval()
			st.NonTrivial(uint64(n))
			g := index(n)
			if g < 0 || g >= steps {
				t.Fatalf("VERIF-KEY:rb-index-range index(%d) = %d outside [0,%d)", n, g, steps)
			}
			if g < prev {
				t.Fatalf("VERIF-KEY:rb-index-monotone index(%d) = %d below index of a smaller size (%d)", n, g, prev)
			}
			prev = g
		}
	}
	rapid.Check(t, func(rt *rapid.T) {
		a := rapid.OneOf(rapid.IntRange(0, 1<<27), rapid.IntRange(0, math.MaxInt-1)).Draw(rt, "a")
		b := rapid.IntRange(a, math.MaxInt).Draw(rt, "b")
		st.Eval()
		ia, ib := index(a), index(b)
		if ia < 0 || ia >= steps || ib < 0 || ib >= steps {
			rt.Fatalf("VERIF-KEY:rb-index-range index(%d)=%d index(%d)=%d outside [0,%d)", a, ia, b, ib, steps)
		}
		if ia > ib {
			rt.Fatalf("VERIF-KEY:rb-index-monotone index(%d)=%d > index(%d)=%d", a, ia, b, ib)
		}
		// the class capacity covers the size (below the last class)
		if ia < steps-1 && a > minSize<<ia {
			rt.Fatalf("VERIF-KEY:rb-index-cover size %d placed in class %d of capacity %d", a, ia, minSize<<ia)
		}
	})
	st.Sample(true, fmt.Sprintf("index(0)=%d index(64)=%d index(65)=%d index(1<<25)=%d index(MaxInt)=%d", index(0), index(64), index(65), index(1<<25), index(math.MaxInt)))
}
