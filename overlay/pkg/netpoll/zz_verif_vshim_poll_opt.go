//go:build linux && poll_opt

package netpoll

// Placed by the /verif overlay: fault-injection wrappers around the raw epoll
// system calls of the poll_opt poller (calls are redirected here by tools/instr).

import (
	"golang.org/x/sys/unix"

	"github.com/panjf2000/gnet/v2/internal/vshim"
)

func vEpollCtlF(epfd int, op int, fd int, event *epollevent) error {
	name := map[int]string{unix.EPOLL_CTL_ADD: "epoll_ctl_add", unix.EPOLL_CTL_MOD: "epoll_ctl_mod", unix.EPOLL_CTL_DEL: "epoll_ctl_del"}[op]
	if e, ok := vshim.Check(name, fd); ok {
		return e
	}
	return epollCtl(epfd, op, fd, event)
}

func vEpollWaitF(epfd int, events []epollevent, msec int) (int, error) {
	if e, ok := vshim.Check("epoll_wait", epfd); ok {
		return -1, e
	}
	return epollWait(epfd, events, msec)
}
