//go:build linux && poll_opt

package netpoll

// Placed by the /verif overlay: scheduling-point wrapper around the raw
// epoll_wait of the poll_opt poller (calls are redirected here by tools/instr).

import (
	"golang.org/x/sys/unix"

	"github.com/panjf2000/gnet/v2/internal/vsched"
)

func vEpollWait(epfd int, events []epollevent, msec int) (int, error) {
	if !vsched.Scheduled() {
		return epollWait(epfd, events, msec)
	}
	vsched.Yield("epoll_wait")
	for {
		n, err := epollWait(epfd, events, 0)
		if n > 0 || err != nil || msec >= 0 {
			return n, err
		}
		if vsched.YieldIdle("epoll_wait(block)") {
			return -1, unix.EBADF
		}
	}
}
