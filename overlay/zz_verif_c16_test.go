//go:build linux

package gnet

// C16 — address parsing and option normalisation are total and exact.
// Internal test placed by the /verif overlay.

import (
	"errors"
	"fmt"
	"math/bits"
	"net/url"
	"os"
	"path"
	"path/filepath"
	"runtime"
	"strings"
	"testing"

	"pgregory.net/rapid"

	errorx "github.com/panjf2000/gnet/v2/pkg/errors"
	"github.com/panjf2000/gnet/v2/verifx/vstat"
)

type c16nopLogger struct{}

func (c16nopLogger) Debugf(string, ...any) {}
func (c16nopLogger) Infof(string, ...any)  {}
func (c16nopLogger) Warnf(string, ...any)  {}
func (c16nopLogger) Errorf(string, ...any) {}
func (c16nopLogger) Fatalf(string, ...any) {}

var c16schemes = []string{"tcp", "tcp4", "tcp6", "udp", "udp4", "udp6", "unix"}

func c16supported(s string) bool {
	for _, x := range c16schemes {
		if s == x {
			return true
		}
	}
	return false
}

func c16mixCase(t *rapid.T, s string) string {
	b := []byte(s)
	for i := range b {
		if rapid.IntRange(0, 3).Draw(t, "up") == 0 {
			b[i] = strings.ToUpper(string(b[i]))[0]
		}
	}
	return string(b)
}

// parse with panic capture
func c16parse(s string) (proto, addr string, err error, panicked any) {
	defer func() { panicked = recover() }()
	proto, addr, err = parseProtoAddr(s)
	return
}

var (
	c16label   = rapid.StringMatching(`[a-zA-Z0-9]([a-zA-Z0-9-]{0,8}[a-zA-Z0-9])?`)
	c16zone    = rapid.OneOf(rapid.SampledFrom([]string{"eth0", "lo", "en0", "25", "2", "ab", "a%b", "wlan-1", "eth0.100", "%", "fe"}), rapid.StringMatching(`[a-zA-Z0-9.%_-]{1,8}`))
	c16seg     = rapid.OneOf(rapid.StringMatching(`[a-zA-Z0-9._-]{1,10}`), rapid.SampledFrom([]string{".", "..", "a b", "sök", "a%b", "%41", "%", "100%", "日本", "x+y", "a=b", "~u", "a,b", "a;b", "@", "a:b"}))
	c16relHead = rapid.OneOf(rapid.StringMatching(`[a-zA-Z0-9_-][a-zA-Z0-9._-]{0,9}`), rapid.SampledFrom([]string{".", "..", "a%b", "tmp"}))
)

func c16host(t *rapid.T) (host string, kind string) {
	switch rapid.IntRange(0, 5).Draw(t, "hostKind") {
	case 0:
		n := rapid.IntRange(1, 3).Draw(t, "labels")
		var ls []string
		for i := 0; i < n; i++ {
			ls = append(ls, c16label.Draw(t, "label"))
		}
		return strings.Join(ls, "."), "name"
	case 1:
		return fmt.Sprintf("%d.%d.%d.%d", rapid.IntRange(0, 255).Draw(t, "a"), rapid.IntRange(0, 255).Draw(t, "b"), rapid.IntRange(0, 255).Draw(t, "c"), rapid.IntRange(0, 255).Draw(t, "d")), "ipv4"
	case 2:
		return "[" + rapid.SampledFrom([]string{"::1", "::", "fe80::1", "2001:db8::ff00:42:8329", "::ffff:192.0.2.1", "fe80::fc:ff:fe00:1"}).Draw(t, "v6") + "]", "ipv6"
	case 3, 4:
		return "[" + rapid.SampledFrom([]string{"fe80::1", "fe80::fc:ff:fe00:1", "ff02::1"}).Draw(t, "v6") + "%" + c16zone.Draw(t, "zone") + "]", "ipv6zone"
	default:
		return "", "empty"
	}
}

func TestC16ParseWellFormed(t *testing.T) {
	st := vstat.New("C16.parse_wellformed")
	defer st.Flush()
	rapid.Check(t, func(t *rapid.T) {
		scheme := rapid.SampledFrom(c16schemes).Draw(t, "scheme")
		written := c16mixCase(t, scheme)
		var endpoint, want, kind string
		if scheme == "unix" {
			abs := rapid.Bool().Draw(t, "absolute")
			n := rapid.IntRange(1, 4).Draw(t, "segments")
			var segs []string
			for i := 0; i < n; i++ {
				if i == 0 && !abs {
					segs = append(segs, c16relHead.Draw(t, "head"))
				} else {
					segs = append(segs, c16seg.Draw(t, "seg"))
				}
				if rapid.IntRange(0, 7).Draw(t, "dbl") == 0 {
					segs = append(segs, "") // produces a "//"
				}
			}
			endpoint = strings.Join(segs, "/")
			if abs {
				endpoint = "/" + endpoint
			}
			want = path.Clean(endpoint)
			kind = "unixpath"
			if strings.Contains(endpoint, "%") {
				kind = "unixpath%"
			}
			if !abs && strings.HasPrefix(segs[0], ".") && len(segs[0]) <= 2 && n == 1 {
				// "unix://." / "unix://.." clean to "." / "..": still a non-empty endpoint
			}
		} else {
			host, hk := c16host(t)
			kind = hk
			port := ""
			if hk == "empty" || rapid.IntRange(0, 9).Draw(t, "noPort") != 0 {
				port = fmt.Sprintf(":%d", rapid.OneOf(rapid.IntRange(0, 65535), rapid.SampledFrom([]int{0, 1, 80, 65535})).Draw(t, "port"))
			}
			endpoint = host + port
			want = endpoint
		}
		in := written + "://" + endpoint
		proto, addr, err, pan := c16parse(in)
		st.Eval()
		nt := strings.Contains(in, "%") || strings.Contains(in, "[")
		if nt {
			st.NonTrivial(vstat.Hash(in))
		}
		st.Label(kind)
		if st.WantSample(nt) {
			st.Sample(nt, fmt.Sprintf("%q -> (%q, %q, %v)", in, proto, addr, err))
		}
		if pan != nil {
			t.Fatalf("VERIF-KEY:parse-panic parseProtoAddr(%q) panicked: %v", in, pan)
		}
		if err != nil {
			t.Fatalf("VERIF-KEY:parse-reject parseProtoAddr(%q) rejected a well-formed address: %v", in, err)
		}
		if proto != scheme {
			t.Fatalf("VERIF-KEY:parse-scheme parseProtoAddr(%q) scheme %q, want %q", in, proto, scheme)
		}
		if addr != want {
			t.Fatalf("VERIF-KEY:parse-endpoint parseProtoAddr(%q) endpoint %q, want %q (as written)", in, addr, want)
		}
	})
}

func TestC16ParseIllFormed(t *testing.T) {
	st := vstat.New("C16.parse_illformed")
	defer st.Flush()
	rapid.Check(t, func(t *rapid.T) {
		var in string
		var want error
		kind := rapid.SampledFrom([]string{"noscheme", "unknown", "nearscheme", "emptyendpoint", "pathontcp"}).Draw(t, "kind")
		switch kind {
		case "nearscheme":
			// one step away from a supported scheme: extra or repeated family digits, a letter more or less
			base := rapid.SampledFrom([]string{"tcp", "udp", "unix", "tcp4", "tcp6", "udp4", "udp6"}).Draw(t, "base")
			sch := base + rapid.SampledFrom([]string{"4", "6", "46", "64", "44", "66", "444", "s", "x", "5", "0", "-", "."}).Draw(t, "suffix")
			if rapid.IntRange(0, 5).Draw(t, "cut") == 0 {
				sch = base[:len(base)-1]
			}
			if c16supported(sch) {
				sch += "x"
			}
			in = c16mixCase(t, sch) + "://" + rapid.SampledFrom([]string{"127.0.0.1:80", "[::1]:80", "h:1", "/tmp/a.sock", ":9000"}).Draw(t, "rest")
			want = errorx.ErrUnsupportedProtocol
		case "noscheme":
			// no colon at all: url.Parse accepts it with an empty scheme
			in = rapid.StringMatching(`[a-zA-Z0-9._-]{0,12}(/[a-zA-Z0-9._-]{1,6}){0,2}`).Draw(t, "s")
			want = errorx.ErrInvalidNetworkAddress
		case "unknown":
			sch := rapid.StringMatching(`[a-z][a-z0-9+.-]{0,7}`).Filter(func(s string) bool { return !c16supported(s) }).Draw(t, "scheme")
			in = sch + "://" + rapid.StringMatching(`[a-z0-9.]{0,10}(:[0-9]{1,4})?`).Draw(t, "rest")
			want = errorx.ErrUnsupportedProtocol
		case "emptyendpoint":
			in = c16mixCase(t, rapid.SampledFrom(c16schemes).Draw(t, "scheme")) + "://"
			want = errorx.ErrInvalidNetworkAddress
		default:
			sch := rapid.SampledFrom(c16schemes[:6]).Draw(t, "scheme")
			host, _ := c16host(t)
			in = sch + "://" + host + ":" + fmt.Sprint(rapid.IntRange(1, 65535).Draw(t, "port")) + "/" + rapid.StringMatching(`[a-z0-9]{0,6}`).Draw(t, "path")
			want = errorx.ErrInvalidNetworkAddress
		}
		proto, addr, err, pan := c16parse(in)
		st.Eval()
		st.NonTrivial(vstat.Hash(in))
		st.Label(kind)
		if st.WantSample(true) {
			st.Sample(true, fmt.Sprintf("%q -> (%q, %q, %v)", in, proto, addr, err))
		}
		if pan != nil {
			t.Fatalf("VERIF-KEY:parse-panic parseProtoAddr(%q) panicked: %v", in, pan)
		}
		if !errors.Is(err, want) {
			t.Fatalf("VERIF-KEY:parse-error parseProtoAddr(%q) = (%q, %q, %v), want error %v", in, proto, addr, err, want)
		}
	})
}

// c16checkAny: what must hold for every string whatsoever.
func c16checkAny(in string) string {
	proto, addr, err, pan := c16parse(in)
	if pan != nil {
		return fmt.Sprintf("VERIF-KEY:parse-panic parseProtoAddr(%q) panicked: %v", in, pan)
	}
	if err == nil {
		if !c16supported(proto) {
			return fmt.Sprintf("VERIF-KEY:parse-accept parseProtoAddr(%q) accepted scheme %q", in, proto)
		}
		if addr == "" {
			return fmt.Sprintf("VERIF-KEY:parse-accept parseProtoAddr(%q) returned an empty endpoint without error", in)
		}
		if !strings.HasPrefix(strings.ToLower(in), proto+":") {
			return fmt.Sprintf("VERIF-KEY:parse-accept parseProtoAddr(%q) returned scheme %q which the input does not start with", in, proto)
		}
		return ""
	}
	var ue *url.Error
	if !errors.Is(err, errorx.ErrInvalidNetworkAddress) && !errors.Is(err, errorx.ErrUnsupportedProtocol) && !errors.As(err, &ue) {
		return fmt.Sprintf("VERIF-KEY:parse-errkind parseProtoAddr(%q) failed with an undocumented error: %v", in, err)
	}
	if proto != "" || addr != "" {
		return fmt.Sprintf("VERIF-KEY:parse-errvalue parseProtoAddr(%q) returned (%q,%q) together with error %v", in, proto, addr, err)
	}
	return ""
}

func TestC16ParseArbitrary(t *testing.T) {
	st := vstat.New("C16.parse_arbitrary")
	defer st.Flush()
	pieces := []string{"tcp", "udp", "unix", "tcp4", "udp6", "://", ":", "/", "//", "%", "%25", "%zz", "[", "]", "::1", "?", "#", "@", " ", "\n", "\x00", "\x7f", "é", ".", "..", "0", "65536", "-", "+", "a", "Z"}
	gen := rapid.OneOf(
		rapid.String(),
		rapid.Custom(func(t *rapid.T) string {
			n := rapid.IntRange(0, 8).Draw(t, "n")
			var sb strings.Builder
			for i := 0; i < n; i++ {
				sb.WriteString(rapid.SampledFrom(pieces).Draw(t, "piece"))
			}
			return sb.String()
		}),
		rapid.Custom(func(t *rapid.T) string {
			return rapid.SampledFrom(c16schemes).Draw(t, "scheme") + "://" + rapid.String().Draw(t, "rest")
		}),
	)
	rapid.Check(t, func(t *rapid.T) {
		in := gen.Draw(t, "in")
		st.Eval()
		_, _, err, _ := c16parse(in)
		if err == nil || strings.Contains(in, "://") {
			st.NonTrivial(vstat.Hash(in))
		}
		if err == nil {
			st.Label("accepted")
		} else {
			st.Label("rejected")
		}
		if st.WantSample(err == nil) {
			st.Sample(err == nil, fmt.Sprintf("%q -> %v", in, err))
		}
		if msg := c16checkAny(in); msg != "" {
			t.Fatal(msg)
		}
	})
}

func FuzzC16Parse(f *testing.F) {
	for _, s := range []string{"tcp://127.0.0.1:9000", "unix:///tmp/a.sock", "udp6://[fe80::1%eth0]:53", "tulip://howdy", "howdy", "tcp://", ":foo", "tcp://127.0.0.1\n", "unix://a%b/c", "tcp://[::1%25]:1", "TCP4://x:1", "unix://", "tcp://localhost:8080/foo", "%", "://", "tcp://%zz"} {
		f.Add(s)
	}
	f.Fuzz(func(t *testing.T, in string) {
		if msg := c16checkAny(in); msg != "" {
			t.Fatal(msg)
		}
	})
}

// ---- option normalisation -------------------------------------------------------

func c16wantCap(n int) int {
	switch {
	case n <= 0:
		return 64 * 1024
	case n <= 1024:
		return 1024
	}
	p := 1024
	for p < n {
		p *= 2
	}
	return p
}

func c16optInt(t *rapid.T, label string) int {
	switch rapid.IntRange(0, 5).Draw(t, label+"#kind") {
	case 0:
		return rapid.IntRange(-5, 5).Draw(t, label)
	case 1:
		return rapid.IntRange(1020, 1030).Draw(t, label)
	case 2, 3:
		k := rapid.IntRange(0, 62).Draw(t, label+"#k")
		d := rapid.IntRange(-2, 2).Draw(t, label+"#d")
		v := (1 << k) + d
		if v > 1<<62 {
			v = 1 << 62
		}
		return v
	case 4:
		return rapid.IntRange(0, 1<<20).Draw(t, label)
	default:
		return rapid.IntRange(-1<<40, 1<<62).Draw(t, label)
	}
}

func TestC16Options(t *testing.T) {
	st := vstat.New("C16.options")
	defer st.Flush()
	dir, err := os.MkdirTemp("", "c16")
	if err != nil {
		t.Fatalf("VERIF-INFRA %v", err)
	}
	defer os.RemoveAll(dir)
	sock := "unix://" + filepath.Join(dir, "l.sock")
	rapid.Check(t, func(t *rapid.T) {
		rbc := c16optInt(t, "readBufferCap")
		wbc := c16optInt(t, "writeBufferCap")
		chunk := c16optInt(t, "etChunk")
		et := rapid.Bool().Draw(t, "edgeTriggered")
		loops := rapid.OneOf(rapid.IntRange(-3, 300), rapid.SampledFrom([]int{0, 1, 255, 256, 257, 1 << 20, 1 << 40})).Draw(t, "numEventLoop")
		multicore := rapid.Bool().Draw(t, "multicore")
		viaClient := rapid.Bool().Draw(t, "viaClient")
		opts := []Option{WithLogger(c16nopLogger{}), WithReadBufferCap(rbc), WithWriteBufferCap(wbc), WithEdgeTriggeredIOChunk(chunk),
			WithEdgeTriggeredIO(et), WithNumEventLoop(loops), WithMulticore(multicore)}
		var o *Options
		if viaClient {
			cli, err := NewClient(&BuiltinEventEngine{}, opts...)
			if err != nil {
				t.Fatalf("VERIF-KEY:opt-newclient NewClient failed: %v", err)
			}
			o = cli.opts
		} else {
			lns, oo, err := createListeners([]string{sock}, opts...)
			if err != nil {
				t.Fatalf("VERIF-INFRA createListeners(%s): %v", sock, err)
			}
			for _, ln := range lns {
				ln.close()
			}
			o = oo
		}
		st.Eval()
		desc := fmt.Sprintf("rbc=%d wbc=%d chunk=%d et=%v loops=%d multicore=%v client=%v -> rbc=%d wbc=%d chunk=%d et=%v loops=%d",
			rbc, wbc, chunk, et, loops, multicore, viaClient, o.ReadBufferCap, o.WriteBufferCap, o.EdgeTriggeredIOChunk, o.EdgeTriggeredIO, determineEventLoops(o))
		nt := rbc > 1024 && bits.OnesCount(uint(rbc)) != 1 || wbc > 1024 && bits.OnesCount(uint(wbc)) != 1 || chunk > 0 || loops > 256
		if nt {
			st.NonTrivial(vstat.Hash(rbc, wbc, chunk, et, loops, multicore, viaClient))
		}
		if st.WantSample(nt) {
			st.Sample(nt, desc)
		}
		if g, w := o.ReadBufferCap, c16wantCap(rbc); g != w {
			t.Fatalf("VERIF-KEY:opt-readcap ReadBufferCap %d normalised to %d, want %d", rbc, g, w)
		}
		if g, w := o.WriteBufferCap, c16wantCap(wbc); g != w {
			t.Fatalf("VERIF-KEY:opt-writecap WriteBufferCap %d normalised to %d, want %d", wbc, g, w)
		}
		switch {
		case chunk > 0:
			w := 2
			for w < chunk {
				w *= 2
			}
			if !o.EdgeTriggeredIO || o.EdgeTriggeredIOChunk != w {
				t.Fatalf("VERIF-KEY:opt-chunk EdgeTriggeredIOChunk %d normalised to %d (ET=%v), want %d with ET on", chunk, o.EdgeTriggeredIOChunk, o.EdgeTriggeredIO, w)
			}
		case et:
			if !o.EdgeTriggeredIO || o.EdgeTriggeredIOChunk != 1<<20 {
				t.Fatalf("VERIF-KEY:opt-chunk ET without chunk gives chunk %d, want the 1 MiB default", o.EdgeTriggeredIOChunk)
			}
		default:
			if o.EdgeTriggeredIO {
				t.Fatalf("VERIF-KEY:opt-chunk edge-triggered mode switched on without being requested")
			}
		}
		wantLoops := 1
		if multicore {
			wantLoops = runtime.NumCPU()
		}
		if loops > 0 {
			wantLoops = loops
		}
		if wantLoops > 256 {
			wantLoops = 256
		}
		if g := determineEventLoops(o); g != wantLoops {
			t.Fatalf("VERIF-KEY:opt-loops NumEventLoop=%d Multicore=%v gives %d loops, want %d", loops, multicore, g, wantLoops)
		}
	})
}
