//go:build linux

package gnet

// C14 — the connection registry is a faithful map from descriptor to live
// connection. Internal test placed by the /verif overlay; compiled twice
// (default map registry, gc_opt matrix registry).

import (
	"fmt"
	"sort"
	"strings"
	"testing"

	"pgregory.net/rapid"

	"github.com/panjf2000/gnet/v2/verifx/vstat"
)

type regMachine struct {
	cm    connMatrix
	model map[int]*conn
	order []*conn // live connections in registration order
	hist  []string
	reloc bool // a non-last entry was deleted while others were live
	dead  []int
	loop  int
}

func (m *regMachine) logf(format string, a ...any) {
	if len(m.hist) < 300 {
		m.hist = append(m.hist, fmt.Sprintf(format, a...))
	}
}

type c14failer interface {
	Fatalf(format string, args ...any)
}

func (m *regMachine) fail(t c14failer, key, format string, a ...any) {
	t.Fatalf("VERIF-KEY:%s %s\nhistory: %s", key, fmt.Sprintf(format, a...), strings.Join(m.hist, "; "))
}

func (m *regMachine) add(fd int) {
	c := &conn{fd: fd}
	m.cm.addConn(c, m.loop)
	m.model[fd] = c
	m.order = append(m.order, c)
}

func (m *regMachine) del(t c14failer, i int) {
	c := m.order[i]
	if i != len(m.order)-1 && len(m.order) > 1 {
		m.reloc = true
	}
	m.cm.delConn(c)
	delete(m.model, c.fd)
	m.order = append(m.order[:i], m.order[i+1:]...)
	m.dead = append(m.dead, c.fd)
	if len(m.dead) > 64 {
		m.dead = m.dead[len(m.dead)-64:]
	}
}

func (m *regMachine) checkOne(t c14failer, fd int) {
	got := m.cm.getConn(fd)
	want := m.model[fd]
	if got != want {
		switch {
		case want == nil:
			m.fail(t, "reg-ghost", "getConn(%d) returns a connection (fd %d) although nothing is registered under it", fd, got.fd)
		case got == nil:
			m.fail(t, "reg-lost", "getConn(%d) returns nil although a connection is registered", fd)
		default:
			m.fail(t, "reg-wrong", "getConn(%d) returns the connection registered under fd %d", fd, got.fd)
		}
	}
	if want != nil {
		if msg := registryConsistent(&m.cm, want); msg != "" {
			m.fail(t, "reg-internal", "%s", msg)
		}
	}
}

func (m *regMachine) invariant(t c14failer, full bool) {
	if g, w := int(m.cm.loadCount()), len(m.model); g != w {
		m.fail(t, "reg-count", "loadCount() = %d, %d connections are live", g, w)
	}
	if full || len(m.order) <= 400 {
		for _, c := range m.order {
			m.checkOne(t, c.fd)
		}
	} else {
		step := len(m.order) / 200
		for i := 0; i < len(m.order); i += step {
			m.checkOne(t, m.order[i].fd)
		}
		m.checkOne(t, m.order[0].fd)
		m.checkOne(t, m.order[len(m.order)-1].fd)
	}
	for _, fd := range m.dead {
		m.checkOne(t, fd)
	}
}

func (m *regMachine) iterateCheck(t c14failer) {
	seen := map[*conn]int{}
	m.cm.iterate(func(c *conn) bool {
		seen[c]++
		return true
	})
	for c, n := range seen {
		if n != 1 {
			m.fail(t, "reg-iter-dup", "iterate visited fd %d %d times", c.fd, n)
		}
		if m.model[c.fd] != c {
			m.fail(t, "reg-iter-ghost", "iterate visited fd %d which is not live", c.fd)
		}
	}
	if len(seen) != len(m.model) {
		m.fail(t, "reg-iter-miss", "iterate visited %d connections, %d are live", len(seen), len(m.model))
	}
}

func (m *regMachine) freshFD(t *rapid.T) int {
	for tries := 0; ; tries++ {
		var fd int
		switch rapid.IntRange(0, 3).Draw(t, "fdKind") {
		case 0:
			fd = rapid.IntRange(0, 40).Draw(t, "fd")
		case 1:
			fd = rapid.IntRange(0, 70000).Draw(t, "fd")
		case 2:
			fd = rapid.IntRange(0, 1<<31-1).Draw(t, "fd")
		default:
			if len(m.dead) > 0 {
				fd = rapid.SampledFrom(m.dead).Draw(t, "fd") // re-registration of a removed number
			} else {
				fd = rapid.IntRange(0, 1000).Draw(t, "fd")
			}
		}
		if m.model[fd] == nil {
			return fd
		}
		if tries > 20 {
			// pick the smallest free number
			for fd = 0; m.model[fd] != nil; fd++ {
			}
			return fd
		}
	}
}

func TestC14Registry(t *testing.T) {
	st := vstat.New("C14.registry")
	defer st.Flush()
	rapid.Check(t, func(t *rapid.T) {
		m := &regMachine{model: map[int]*conn{}, loop: rapid.IntRange(0, 255).Draw(t, "loop")}
		m.cm.init()
		defer func() {
			st.Eval()
			if m.reloc {
				st.NonTrivial(vstat.Hash(strings.Join(m.hist, ";")))
				st.Label("deleted_non_last_entry")
			} else {
				st.Label("no_relocation")
			}
			if st.WantSample(m.reloc) {
				st.Sample(m.reloc, strings.Join(m.hist, "; "))
			}
		}()
		t.Repeat(map[string]func(*rapid.T){
			"": func(t *rapid.T) { m.invariant(t, false) },
			"add": func(t *rapid.T) {
				k := rapid.SampledFrom([]int{1, 1, 1, 2, 5}).Draw(t, "k")
				for i := 0; i < k; i++ {
					fd := m.freshFD(t)
					m.logf("add(%d)", fd)
					m.add(fd)
				}
			},
			"del": func(t *rapid.T) {
				if len(m.order) == 0 {
					t.Skip("empty")
				}
				var i int
				switch rapid.SampledFrom([]string{"random", "first", "last", "middle"}).Draw(t, "which") {
				case "random":
					i = rapid.IntRange(0, len(m.order)-1).Draw(t, "i")
				case "first":
					i = 0
				case "last":
					i = len(m.order) - 1
				default:
					i = len(m.order) / 2
				}
				m.logf("del(fd %d, #%d of %d)", m.order[i].fd, i, len(m.order))
				m.del(t, i)
			},
			"get": func(t *rapid.T) {
				fd := rapid.OneOf(rapid.IntRange(-3, 100), rapid.IntRange(0, 1<<31-1)).Draw(t, "fd")
				m.checkOne(t, fd)
			},
			"iterate": func(t *rapid.T) {
				m.logf("iterate")
				m.iterateCheck(t)
			},
			"iterateDeleteWithPartners": func(t *rapid.T) {
				// the shutdown sweep when an OnClose closes another connection of the loop
				// (a relay closing its partner): entries other than the visited one disappear
				// while the iteration is under way
				n := len(m.order)
				if n == 0 {
					t.Skip("empty")
				}
				picks := rapid.SliceOfN(rapid.IntRange(0, 1<<20), n, n).Draw(t, "partners")
				m.logf("iterate+delete all, some visits also delete another live entry (%d)", n)
				live := append([]*conn(nil), m.order...)
				gone := map[*conn]bool{}
				visit := 0
				m.cm.iterate(func(c *conn) bool {
					if gone[c] {
						// removed by an earlier visit of this very sweep: the matrix may still show it (its row
						// was dropped as a whole); the property speaks of live connections only and the
						// framework's close ignores a connection that is not registered any more
						return true
					}
					if m.model[c.fd] != c {
						m.fail(t, "reg-iter-ghost", "iterate visited fd %d which was not live when the sweep began", c.fd)
					}
					kill := func(x *conn) {
						m.cm.delConn(x)
						delete(m.model, x.fd)
						m.dead = append(m.dead, x.fd)
						gone[x] = true
					}
					kill(c)
					if p := picks[visit%len(picks)]; p%3 == 0 {
						var rest []*conn
						for _, x := range live {
							if !gone[x] {
								rest = append(rest, x)
							}
						}
						if len(rest) > 0 {
							kill(rest[(p/3)%len(rest)])
						}
					}
					visit++
					return true
				})
				if len(m.model) != 0 {
					m.fail(t, "reg-iter-miss", "a sweep in which visits also removed other entries visited %d connections and left %d live ones unvisited", visit, len(m.model))
				}
				if len(m.dead) > 64 {
					m.dead = m.dead[len(m.dead)-64:]
				}
				m.order = nil
				if n := m.cm.loadCount(); n != 0 {
					m.fail(t, "reg-count", "registry reports %d connections after all were removed", n)
				}
			},
			"iterateDeleteAll": func(t *rapid.T) {
				m.logf("iterate+delete all (%d)", len(m.order))
				visited := 0
				m.cm.iterate(func(c *conn) bool {
					if m.model[c.fd] != c {
						m.fail(t, "reg-iter-ghost", "iterate visited fd %d which is not live", c.fd)
					}
					visited++
					m.cm.delConn(c)
					delete(m.model, c.fd)
					m.dead = append(m.dead, c.fd)
					return true
				})
				if len(m.model) != 0 {
					m.fail(t, "reg-iter-miss", "iterate-and-delete visited %d connections and left %d live ones unvisited", visited, len(m.model))
				}
				if len(m.dead) > 64 {
					m.dead = m.dead[len(m.dead)-64:]
				}
				m.order = nil
				if n := m.cm.loadCount(); n != 0 {
					m.fail(t, "reg-count", "registry reports %d connections after all were removed", n)
				}
			},
		})
	})
}

// Populations that cross the 65536-entry row boundary of the matrix.
func TestC14RowBoundary(t *testing.T) {
	st := vstat.New("C14.row_boundary")
	defer st.Flush()
	rapid.Check(t, func(t *rapid.T) {
		m := &regMachine{model: map[int]*conn{}, loop: rapid.IntRange(0, 255).Draw(t, "loop")}
		m.cm.init()
		base := rapid.IntRange(3, 1000).Draw(t, "base")
		n := 65536*rapid.SampledFrom([]int{1, 1, 1, 2}).Draw(t, "rows") + rapid.SampledFrom([]int{-2, -1, 0, 1, 1, 1, 2, 3, 100, 4000}).Draw(t, "over")
		m.logf("bulk add %d fds from %d", n, base)
		for i := 0; i < n; i++ {
			m.add(base + i)
		}
		m.invariant(t, false)
		steps := rapid.IntRange(3, 40).Draw(t, "steps") // the population walks around the row boundary
		for s := 0; s < steps; s++ {
			switch rapid.SampledFrom([]string{"delLast", "delFirst", "delNearBoundary", "delRandom", "delAtRowEdge", "delAtRowEdge", "add", "add", "add", "add", "add"}).Draw(t, "op") {
			case "delLast":
				m.logf("del last (fd %d)", m.order[len(m.order)-1].fd)
				m.del(t, len(m.order)-1)
			case "delFirst":
				m.logf("del first (fd %d)", m.order[0].fd)
				m.del(t, 0)
			case "delNearBoundary":
				i := 65536*rapid.IntRange(1, 2).Draw(t, "row") + rapid.IntRange(-3, 3).Draw(t, "off")
				if i >= len(m.order) {
					i = len(m.order) - 1
				}
				m.logf("del #%d (fd %d) of %d", i, m.order[i].fd, len(m.order))
				m.del(t, i)
			case "delAtRowEdge":
				// aimed at a position of the matrix (registration order and position part company after the
				// first compaction): the last / first columns of the rows at and below the frontier
				row := frontier(&m.cm) - rapid.IntRange(0, 1).Draw(t, "rowsBelowFrontier")
				col := rapid.SampledFrom([]int{65535, 65535, 65534, 0, 1}).Draw(t, "col")
				c := connAt(&m.cm, row, col)
				if c == nil {
					m.logf("nothing at (%d,%d)", row, col)
					continue
				}
				for i := range m.order {
					if m.order[i] == c {
						m.logf("del the connection at (%d,%d) (fd %d) of %d", row, col, c.fd, len(m.order))
						m.del(t, i)
						break
					}
				}
			case "delRandom":
				i := rapid.IntRange(0, len(m.order)-1).Draw(t, "i")
				m.logf("del #%d (fd %d) of %d", i, m.order[i].fd, len(m.order))
				m.del(t, i)
			default:
				fd := base + n + s + 200000
				m.logf("add(%d)", fd)
				m.add(fd)
			}
			m.invariant(t, true)
		}
		m.invariant(t, true)
		m.iterateCheck(t)
		// shutdown pattern over the big population
		m.cm.iterate(func(c *conn) bool {
			m.cm.delConn(c)
			delete(m.model, c.fd)
			return true
		})
		if len(m.model) != 0 || m.cm.loadCount() != 0 {
			m.fail(t, "reg-iter-miss", "iterate-and-delete left %d live connections, count %d", len(m.model), m.cm.loadCount())
		}
		m.order = nil
		// reusable afterwards
		for i := 0; i < 5; i++ {
			m.add(base + i)
		}
		m.invariant(t, true)
		st.Eval()
		st.NonTrivial(vstat.Hash(strings.Join(m.hist, ";")))
		st.Label("crossed_row_boundary")
		if st.WantSample(true) {
			st.Sample(true, strings.Join(m.hist, "; "))
		}
	})
}

var _ = sort.Ints
