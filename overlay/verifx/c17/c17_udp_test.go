package c17

// C17 (engine half, datagrams): for every UDP event RemoteAddr is the datagram's source -
// address, port and zone - and LocalAddr the listener's address, however datagrams of
// several sockets that share one IP address (and differ in the port only) alternate or
// queue up behind a busy handler; a reply addressed with SendTo(c.RemoteAddr()) reaches
// that source.

import (
	"bytes"
	"fmt"
	"net"
	"strings"
	"sync"
	"testing"
	"time"

	"pgregory.net/rapid"

	gnet "github.com/panjf2000/gnet/v2"
	"github.com/panjf2000/gnet/v2/verifx/fx"
	"github.com/panjf2000/gnet/v2/verifx/vstat"
)

type udpAddrCase struct {
	Kind    string // udp4, udp6, udp6-lo-zone, udp6-linklocal
	Loops   int
	Senders int
	Order   []int // which sender sends the i-th datagram
	Burst   bool  // the handler stalls on the first datagram while the others queue up on the socket
	SendTo  bool  // reply with SendTo(c.RemoteAddr()) instead of Write
}

func (c udpAddrCase) String() string {
	return fmt.Sprintf("%s loops=%d senders=%d order=%v queuedBehindBusyHandler=%v replyBySendTo=%v", c.Kind, c.Loops, c.Senders, c.Order, c.Burst, c.SendTo)
}

type udpAddrSrv struct {
	cs      udpAddrCase
	mu      sync.Mutex
	events  []udpAddrEvent
	entered chan struct{}
	release chan struct{}
	once    sync.Once
}

type udpAddrEvent struct {
	sender, seq   int
	remote, local string
	replyErr      error
}

func (s *udpAddrSrv) OnOpen(gnet.Conn) ([]byte, gnet.Action) { return nil, gnet.None }
func (s *udpAddrSrv) OnClose(gnet.Conn, error) gnet.Action   { return gnet.None }
func (s *udpAddrSrv) OnTraffic(c gnet.Conn) gnet.Action {
	b, _ := c.Next(-1)
	if len(b) < 2 {
		return gnet.None
	}
	ev := udpAddrEvent{sender: int(b[0]), seq: int(b[1]), remote: "<nil>", local: "<nil>"}
	if a := c.RemoteAddr(); a != nil {
		ev.remote = a.String()
	}
	if a := c.LocalAddr(); a != nil {
		ev.local = a.String()
	}
	if s.cs.Burst {
		s.once.Do(func() {
			close(s.entered)
			select {
			case <-s.release:
			case <-time.After(3 * time.Second):
			}
		})
	}
	out := append([]byte(nil), b...)
	if s.cs.SendTo {
		_, ev.replyErr = c.SendTo(out, c.RemoteAddr())
	} else {
		_, ev.replyErr = c.Write(out)
	}
	s.mu.Lock()
	s.events = append(s.events, ev)
	s.mu.Unlock()
	return gnet.None
}

func runUDPAddr(cs udpAddrCase) (fails []string, infra string) {
	add := func(key, f string, a ...any) {
		if len(fails) < 8 {
			fails = append(fails, fmt.Sprintf("VERIF-KEY:%s %s", key, fmt.Sprintf(f, a...)))
		}
	}
	srv := &udpAddrSrv{cs: cs, entered: make(chan struct{}), release: make(chan struct{})}
	cfg := fx.Cfg{Net: "udp4", Loops: cs.Loops, ReadCap: 2048, WriteCap: 1024}
	hooks := fx.EngineHooks{Unbound: func(gnet.Conn) fx.ConnHooks { return srv }}
	var e *fx.Engine
	var err error
	bind := fx.Host("udp4")
	netw := "udp4"
	switch cs.Kind {
	case "udp4":
		e, err = fx.Start(cfg, hooks)
	case "udp6":
		netw, bind = "udp6", "::1"
		cfg.Net = "udp6"
		e, err = fx.Start(cfg, hooks)
	case "udp6-lo-zone":
		netw, bind = "udp6", "::1"
		e, err = fx.StartAt(cfg, hooks, "udp6", "[::1%lo]")
	case "udp6-linklocal":
		netw, bind = "udp6", linkLocal
		e, err = fx.StartAt(cfg, hooks, "udp6", "["+linkLocal+"]")
	}
	if err != nil {
		return nil, err.Error()
	}
	defer func() {
		if err := e.Stop(); err != nil {
			add("addr-stop", "%v", err)
		}
	}()
	raddr, err := net.ResolveUDPAddr(netw, e.Addr)
	if err != nil {
		return nil, "resolve " + e.Addr + ": " + err.Error()
	}
	ip, zone := bind, ""
	if i := strings.IndexByte(bind, '%'); i >= 0 {
		ip, zone = bind[:i], bind[i+1:]
	}
	var socks []*net.UDPConn
	for i := 0; i < cs.Senders; i++ {
		c, err := net.ListenUDP(netw, &net.UDPAddr{IP: net.ParseIP(ip), Zone: zone})
		if err != nil {
			return nil, "sender socket: " + err.Error()
		}
		defer c.Close()
		socks = append(socks, c)
	}
	payload := func(i int) []byte {
		b := make([]byte, 2+(i*7)%40)
		b[0], b[1] = byte(cs.Order[i]), byte(i)
		for k := 2; k < len(b); k++ {
			b[k] = byte(i*31 + k)
		}
		return b
	}
	send := func(i int) bool {
		if _, err := socks[cs.Order[i]].WriteToUDP(payload(i), raddr); err != nil {
			infra = "sender: " + err.Error()
			return false
		}
		return true
	}
	first := 0
	if cs.Burst {
		if !send(0) {
			return
		}
		first = 1
		select {
		case <-srv.entered:
		case <-time.After(8 * time.Second):
			add("addr-udp-lost", "the first datagram produced no event within 8s")
			return
		}
	}
	for i := first; i < len(cs.Order); i++ {
		if !send(i) {
			return
		}
	}
	if cs.Burst {
		time.Sleep(2 * time.Millisecond) // let them queue up on the listener's socket
		close(srv.release)
	}
	dl := time.Now().Add(8 * time.Second)
	for {
		srv.mu.Lock()
		n := len(srv.events)
		srv.mu.Unlock()
		if n >= len(cs.Order) {
			break
		}
		if time.Now().After(dl) {
			add("addr-udp-lost", "%d of %d datagrams produced an event within 8s", n, len(cs.Order))
			return
		}
		time.Sleep(200 * time.Microsecond)
	}
	srv.mu.Lock()
	evs := append([]udpAddrEvent(nil), srv.events...)
	srv.mu.Unlock()
	perSender := make([][]int, cs.Senders)
	for _, ev := range evs {
		if ev.sender >= cs.Senders || ev.seq >= len(cs.Order) || cs.Order[ev.seq] != ev.sender {
			add("addr-udp-payload", "an event offers a datagram (%d, %d) nobody sent", ev.sender, ev.seq)
			continue
		}
		want := socks[ev.sender].LocalAddr().String()
		if ev.remote != want {
			add("addr-remote", "datagram %d of sender %d: RemoteAddr() = %q, it was sent from %q", ev.seq, ev.sender, ev.remote, want)
		}
		if ev.local != e.Addr {
			add("addr-local", "datagram %d of sender %d: LocalAddr() = %q, the listener is bound to %q", ev.seq, ev.sender, ev.local, e.Addr)
		}
		if ev.replyErr != nil {
			add("addr-reply", "datagram %d of sender %d: the reply failed: %v", ev.seq, ev.sender, ev.replyErr)
		}
		perSender[ev.sender] = append(perSender[ev.sender], ev.seq)
	}
	if len(fails) > 0 {
		return
	}
	// every reply reaches the socket its datagram came from
	buf := make([]byte, 4096)
	for sidx, seqs := range perSender {
		got := map[int]bool{}
		for range seqs {
			_ = socks[sidx].SetReadDeadline(time.Now().Add(5 * time.Second))
			n, from, err := socks[sidx].ReadFromUDP(buf)
			if err != nil {
				add("addr-reply", "sender %d received %d of %d replies (%v)", sidx, len(got), len(seqs), err)
				break
			}
			if n < 2 || int(buf[0]) != sidx || !bytes.Equal(buf[:n], payload(int(buf[1]))) {
				add("addr-reply", "sender %d received a reply that answers none of its datagrams (%d bytes, first bytes %v)", sidx, n, buf[:n%3])
				break
			}
			if from.Port != raddr.Port {
				add("addr-reply", "sender %d received a reply from port %d, the listener has port %d", sidx, from.Port, raddr.Port)
			}
			got[int(buf[1])] = true
		}
	}
	for _, p := range e.Logger.Panics() {
		add("panic-logged", "%s", p)
	}
	return
}

func TestC17UDP(t *testing.T) {
	st := vstat.New("C17.udp_events")
	defer st.Flush()
	kinds := []string{"udp4"}
	if fx.HasIPv6 {
		kinds = append(kinds, "udp6", "udp6", "udp6-lo-zone")
	}
	if linkLocal != "" {
		kinds = append(kinds, "udp6-linklocal", "udp6-linklocal")
	} else {
		st.Label("skipped_no_link_local_interface")
	}
	rapid.Check(t, func(t *rapid.T) {
		var cs udpAddrCase
		cs.Kind = rapid.SampledFrom(kinds).Draw(t, "kind")
		cs.Loops = rapid.IntRange(1, 3).Draw(t, "loops")
		cs.Senders = rapid.IntRange(2, 5).Draw(t, "senders")
		n := rapid.IntRange(4, 40).Draw(t, "datagrams")
		if rapid.Bool().Draw(t, "alternate") {
			for i := 0; i < n; i++ {
				cs.Order = append(cs.Order, i%cs.Senders)
			}
		} else {
			for i := 0; i < n; i++ {
				cs.Order = append(cs.Order, rapid.IntRange(0, cs.Senders-1).Draw(t, "sender"))
			}
		}
		cs.Burst = rapid.Bool().Draw(t, "burst")
		cs.SendTo = rapid.Bool().Draw(t, "sendTo")
		fails, infra := runUDPAddr(cs)
		if infra != "" {
			t.Fatalf("VERIF-INFRA %s\n%s", infra, cs)
		}
		st.Eval()
		nt := strings.Contains(cs.Kind, "zone") || strings.Contains(cs.Kind, "linklocal") || cs.Burst
		if nt {
			st.NonTrivial(vstat.Hash(cs.String()))
		}
		st.Label("kind_" + cs.Kind)
		if cs.Burst {
			st.Label("datagrams_of_several_ports_queued_behind_a_busy_handler")
		}
		if st.WantSample(nt) {
			st.Sample(nt, cs.String())
		}
		if len(fails) > 0 {
			t.Fatalf("%s\ncase: %s", strings.Join(fails, "\n"), cs)
		}
	})
}
