package c17

// C17 (engine half) — addresses reported in callbacks are the truth and stay the
// truth for the whole life of a connection while other connections come and go.

import (
	"fmt"
	"net"
	"os"
	"strings"
	"sync"
	"sync/atomic"
	"testing"
	"time"

	"pgregory.net/rapid"

	gnet "github.com/panjf2000/gnet/v2"
	bsPool "github.com/panjf2000/gnet/v2/pkg/pool/byteslice"
	"github.com/panjf2000/gnet/v2/verifx/fx"
	"github.com/panjf2000/gnet/v2/verifx/vstat"
)

// linkLocal returns "fe80::...%ifname" of the first interface with a link-local address.
var linkLocal = func() string {
	ifs, _ := net.Interfaces()
	for _, ifi := range ifs {
		if ifi.Flags&net.FlagUp == 0 || ifi.Flags&net.FlagLoopback != 0 {
			continue
		}
		addrs, _ := ifi.Addrs()
		for _, a := range addrs {
			if ipn, ok := a.(*net.IPNet); ok && ipn.IP.To4() == nil && ipn.IP.IsLinkLocalUnicast() {
				return ipn.IP.String() + "%" + ifi.Name
			}
		}
	}
	return ""
}()

type addrCase struct {
	Kind        string // tcp4, tcp6, tcp6-lo-zone, tcp6-linklocal, unix
	Cfg         fx.Cfg
	Long        int  // long-lived connections
	Churn       int  // short connections
	ClientChurn int  // gnet-client connections opened and closed in the same process (they recycle zone strings)
	Span        bool // handlers split small Peek/Next across the two inbound buffers (pool Gets of a few bytes)
}

func (c addrCase) String() string {
	return fmt.Sprintf("%s %s long=%d churn=%d clientChurn=%d span=%v", c.Kind, c.Cfg, c.Long, c.Churn, c.ClientChurn, c.Span)
}

type aconn struct {
	s               *asession
	id              int
	wantRemote      string // the peer's own local address
	wantLocal       string // several listeners: the address this peer dialled
	remote0, local0 string
	fails           *[]string
	mu              *sync.Mutex
	cbs             int32
	closedCh        chan struct{}
	span            bool
}

func (a *aconn) failf(key, f string, args ...any) {
	a.mu.Lock()
	if len(*a.fails) < 6 {
		*a.fails = append(*a.fails, fmt.Sprintf("VERIF-KEY:%s conn%d: %s", key, a.id, fmt.Sprintf(f, args...)))
	}
	a.mu.Unlock()
}

func (a *aconn) check(c gnet.Conn, where string) {
	r, l := "<nil>", "<nil>"
	if c.RemoteAddr() != nil {
		r = c.RemoteAddr().String()
	}
	if c.LocalAddr() != nil {
		l = c.LocalAddr().String()
	}
	if a.remote0 == "" && a.local0 == "" {
		a.remote0, a.local0 = r, l
		want := a.wantRemoteNow()
		if want != "" && r != want {
			a.failf("addr-remote", "%s: RemoteAddr() = %q, the peer connected from %q", where, r, want)
		}
		wantL := a.s.listen
		a.mu.Lock()
		if a.wantLocal != "" {
			wantL = a.wantLocal
		}
		a.mu.Unlock()
		if l != wantL {
			a.failf("addr-local", "%s: LocalAddr() = %q, the listener this peer connected to is bound to %q", where, l, wantL)
		}
		return
	}
	if r != a.remote0 || l != a.local0 {
		a.failf("addr-changed", "%s (callback #%d of this connection): addresses changed from %q / %q to %q / %q while other connections were opened and closed", where, atomic.LoadInt32(&a.cbs), a.remote0, a.local0, r, l)
	}
}

func (a *aconn) wantRemoteNow() string {
	a.mu.Lock()
	defer a.mu.Unlock()
	return a.wantRemote
}

func (a *aconn) OnOpen(c gnet.Conn) ([]byte, gnet.Action) {
	atomic.AddInt32(&a.cbs, 1)
	// the peer's address is published by the dialer before it connects (pending map) or right after
	return nil, gnet.None
}

func (a *aconn) OnTraffic(c gnet.Conn) gnet.Action {
	atomic.AddInt32(&a.cbs, 1)
	a.check(c, "OnTraffic")
	if a.span && c.InboundBuffered() >= 3 {
		// leave one byte so that the next callback stitches ring + fresh bytes
		if b, err := c.Peek(2); err == nil && len(b) == 2 {
			_, _ = c.Discard(c.InboundBuffered() - 1)
		}
	} else if c.InboundBuffered() > 1 {
		_, _ = c.Next(c.InboundBuffered())
	}
	_, _ = c.Write([]byte{'k'})
	return gnet.None
}

func (a *aconn) OnClose(c gnet.Conn, err error) gnet.Action {
	a.check(c, "OnClose")
	close(a.closedCh)
	return gnet.None
}

type asession struct {
	listen string
}

func runAddr(ac addrCase) (fails []string, infra string, observedAcross int) {
	var mu sync.Mutex
	s := &asession{}
	cfg := ac.Cfg
	var e *fx.Engine
	var err error
	// the listener address
	switch ac.Kind {
	case "tcp6-lo-zone":
		e, err = fx.StartAt(cfg, fx.EngineHooks{}, "tcp6", "[::1%lo]")
	case "tcp6-linklocal":
		e, err = fx.StartAt(cfg, fx.EngineHooks{}, "tcp6", "["+linkLocal+"]")
	default:
		e, err = fx.Start(cfg, fx.EngineHooks{})
	}
	if err != nil {
		return nil, err.Error(), 0
	}
	s.listen = e.Addr
	defer func() {
		if err := e.Stop(); err != nil {
			fails = append(fails, "VERIF-KEY:addr-stop "+err.Error())
		}
	}()
	netw := cfg.Net
	dial := func(a *aconn) (net.Conn, error) {
		// sequential connects: the handler state is bound by fx; the truth is the peer's local address
		p, _, err := e.Connect(a)
		if err != nil {
			return nil, err
		}
		want := p.LocalAddr().String()
		if netw == "unix" {
			want = "" // unnamed client sockets: gnet reports an empty name; net reports "@" - compare nothing
			if p.LocalAddr().String() != "@" && p.LocalAddr().String() != "" {
				want = p.LocalAddr().String()
			}
		}
		a.mu.Lock()
		a.wantRemote = want
		if cfg.Listeners > 1 {
			a.wantLocal = p.RemoteAddr().String()
		}
		a.mu.Unlock()
		return p, nil
	}
	ping := func(p net.Conn, n int) error {
		_ = p.SetDeadline(time.Now().Add(5 * time.Second))
		if _, err := p.Write(make([]byte, n)); err != nil {
			return err
		}
		var one [1]byte
		_, err := p.Read(one[:])
		return err
	}
	mk := func(id int) *aconn {
		return &aconn{s: s, id: id, fails: &fails, mu: &mu, closedCh: make(chan struct{}), span: ac.Span}
	}
	var longs []*aconn
	var longPeers []net.Conn
	for i := 0; i < ac.Long; i++ {
		a := mk(i)
		p, err := dial(a)
		if err != nil {
			return fails, "long connect: " + err.Error(), 0
		}
		longs, longPeers = append(longs, a), append(longPeers, p)
		if err := ping(p, 4); err != nil {
			fails = append(fails, fmt.Sprintf("VERIF-KEY:addr-ping long conn%d: %v", i, err))
			return
		}
	}
	// optional gnet client in the same process whose connections recycle zone strings when released
	var cli *gnet.Client
	var cliTarget net.Listener
	if ac.ClientChurn > 0 {
		tnet, taddr := "tcp4", fx.Host("tcp4")+":0"
		if ac.Kind == "tcp6-linklocal" {
			tnet, taddr = "tcp6", "["+linkLocal+"]:0"
		} else if strings.HasPrefix(ac.Kind, "tcp6") {
			tnet, taddr = "tcp6", "[::1]:0"
		}
		if l, err := net.Listen(tnet, taddr); err == nil {
			cliTarget = l
			defer l.Close()
			go func() {
				for {
					c, err := l.Accept()
					if err != nil {
						return
					}
					c.Close()
				}
			}()
			if c, err := gnet.NewClient(&gnet.BuiltinEventEngine{}, gnet.WithLogger(&fx.CaptureLogger{})); err == nil && c.Start() == nil {
				cli = c
				defer cli.Stop()
			}
		}
	}
	stir := func(k int) {
		// another user of the byte-slice pool takes small slices and writes to them
		for n := 1; n <= 16; n++ {
			b := bsPool.Get(n)
			for i := range b {
				b[i] = 'X'
			}
			if k%2 == 0 {
				bsPool.Put(b)
			}
		}
	}
	for i := 0; i < ac.Churn; i++ {
		a := mk(1000 + i)
		p, err := dial(a)
		if err != nil {
			return fails, "churn connect: " + err.Error(), 0
		}
		if err := ping(p, 3+i%5); err != nil {
			fails = append(fails, fmt.Sprintf("VERIF-KEY:addr-ping short conn%d: %v", a.id, err))
		}
		p.Close()
		select {
		case <-a.closedCh:
		case <-time.After(5 * time.Second):
			fails = append(fails, fmt.Sprintf("VERIF-KEY:addr-noclose short conn%d: no OnClose within 5s", a.id))
			return
		}
		if cli != nil && i < ac.ClientChurn {
			if c, err := cli.Dial(cliTarget.Addr().Network(), cliTarget.Addr().String()); err == nil {
				_ = c.Close()
				time.Sleep(200 * time.Microsecond)
			}
		}
		stir(i)
		// the long-lived connections are observed again after every close
		if i%5 == 4 || i == ac.Churn-1 {
			for j, p := range longPeers {
				if err := ping(p, 2); err != nil {
					fails = append(fails, fmt.Sprintf("VERIF-KEY:addr-ping long conn%d after %d closes: %v", j, i+1, err))
					return
				}
			}
			observedAcross = i + 1
		}
		mu.Lock()
		bad := len(fails) > 0
		mu.Unlock()
		if bad {
			break
		}
	}
	for _, p := range longPeers {
		p.Close()
	}
	for _, a := range longs {
		select {
		case <-a.closedCh:
		case <-time.After(5 * time.Second):
		}
	}
	for _, p := range e.Logger.Panics() {
		fails = append(fails, "VERIF-KEY:panic-logged "+p)
	}
	return
}

func TestC17Sessions(t *testing.T) {
	st := vstat.New("C17.sessions")
	defer st.Flush()
	kinds := []string{"tcp4", "tcp4", "unix"}
	if fx.HasIPv6 {
		kinds = append(kinds, "tcp6", "tcp6-lo-zone", "tcp6-lo-zone")
	}
	if linkLocal != "" {
		kinds = append(kinds, "tcp6-linklocal", "tcp6-linklocal")
	} else {
		st.Label("skipped_no_link_local_interface")
	}
	rapid.Check(t, func(t *rapid.T) {
		var ac addrCase
		ac.Kind = rapid.SampledFrom(kinds).Draw(t, "kind")
		ac.Cfg = fx.DrawCfg(t, fx.DrawOpt{ServerOnly: true, MaxLoops: 4})
		ac.Cfg.RcvBuf, ac.Cfg.SndBuf = 0, 0
		switch ac.Kind {
		case "unix":
			ac.Cfg.Net = "unix"
			ac.Cfg.ReusePort = false
		case "tcp4":
			ac.Cfg.Net = "tcp4"
		default:
			ac.Cfg.Net = "tcp6"
		}
		if (ac.Kind == "tcp4" || ac.Kind == "tcp6" || ac.Kind == "unix") && rapid.IntRange(0, 2).Draw(t, "severalListeners") == 0 {
			ac.Cfg.Listeners = rapid.IntRange(2, 3).Draw(t, "listeners") // Rotate: every connection reports the listener it came through
		}
		ac.Long = rapid.IntRange(1, 3).Draw(t, "long")
		ac.Churn = rapid.SampledFrom([]int{5, 20, 60, 120}).Draw(t, "churn")
		if vstat.Thorough() {
			ac.Churn *= 3
		}
		ac.ClientChurn = rapid.SampledFrom([]int{0, 0, 10}).Draw(t, "clientChurn")
		ac.Span = rapid.Bool().Draw(t, "span")
		fails, infra, across := runAddr(ac)
		if infra != "" {
			t.Fatalf("VERIF-INFRA %s\n%s", infra, ac)
		}
		st.Eval()
		nt := across >= 50 || strings.Contains(ac.Kind, "zone") || ac.Kind == "tcp6-linklocal"
		if nt {
			st.NonTrivial(vstat.Hash(ac.String()))
		}
		st.Label("kind_" + ac.Kind)
		if across >= 50 {
			st.Label("long_lived_connection_observed_across_50_or_more_closes")
		}
		if st.WantSample(nt) {
			st.Sample(nt, ac.String())
		}
		if len(fails) > 0 {
			t.Fatalf("%s\ncase: %s", strings.Join(fails, "\n"), ac)
		}
	})
}

func TestMain(m *testing.M) {
	code := m.Run()
	fx.Cleanup()
	os.Exit(code)
}
