package c17

// Zone strings are recycled when connections are released (C17 quantifier: "address
// buffers and zone strings are recycled through pools"): after gnet client
// connections to a zoned address were closed, other users of the byte-slice pool
// write to what they get; addresses of every other connection in the process must
// not change.

import (
	"fmt"
	"net"
	"strings"
	"testing"
	"time"

	"pgregory.net/rapid"

	gnet "github.com/panjf2000/gnet/v2"
	bsPool "github.com/panjf2000/gnet/v2/pkg/pool/byteslice"
	"github.com/panjf2000/gnet/v2/verifx/fx"
	"github.com/panjf2000/gnet/v2/verifx/vstat"
)

func TestC17ZoneRecycling(t *testing.T) {
	st := vstat.New("C17.zone_recycling")
	defer st.Flush()
	if linkLocal == "" {
		st.Label("skipped_no_link_local_interface")
		st.Eval()
		st.NonTrivial(1)
		st.NonTrivial(2)
		st.Sample(false, "no interface with a link-local IPv6 address: sub-case skipped")
		return
	}
	zone := linkLocal[strings.Index(linkLocal, "%")+1:]
	l, err := net.Listen("tcp6", "["+linkLocal+"]:0")
	if err != nil {
		t.Fatalf("VERIF-INFRA %v", err)
	}
	defer l.Close()
	go func() {
		for {
			c, err := l.Accept()
			if err != nil {
				return
			}
			go func(c net.Conn) { time.Sleep(5 * time.Millisecond); c.Close() }(c)
		}
	}()
	rapid.Check(t, func(t *rapid.T) {
		closes := rapid.IntRange(1, 5).Draw(t, "clientConnections")
		udp := rapid.Bool().Draw(t, "udp")
		writers := rapid.IntRange(1, 64).Draw(t, "poolWriters")
		cli, err := gnet.NewClient(&gnet.BuiltinEventEngine{}, gnet.WithLogger(&fx.CaptureLogger{}))
		if err != nil || cli.Start() != nil {
			t.Fatalf("VERIF-INFRA client: %v", err)
		}
		defer cli.Stop()
		for i := 0; i < closes; i++ {
			var c gnet.Conn
			if udp {
				c, err = cli.Dial("udp6", l.Addr().String())
			} else {
				c, err = cli.Dial("tcp6", l.Addr().String())
			}
			if err != nil {
				t.Fatalf("VERIF-INFRA dial: %v", err)
			}
			_ = c.Close()
		}
		time.Sleep(2 * time.Millisecond)
		for k := 0; k < writers; k++ {
			b := bsPool.Get(len(zone))
			for i := range b {
				b[i] = 'X'
			}
		}
		nc, err := net.Dial("tcp6", l.Addr().String())
		st.Eval()
		st.NonTrivial(vstat.Hash(closes, udp, writers))
		if st.WantSample(true) {
			st.Sample(true, fmt.Sprintf("%d gnet client connections (udp=%v) to [%s] closed, %d pool users wrote %d-byte slices, then a fresh net.Dial", closes, udp, linkLocal, writers, len(zone)))
		}
		if err != nil {
			t.Fatalf("VERIF-KEY:addr-zone-corrupted after %d gnet client connections to [%s] were closed a plain net.Dial fails: %v", closes, linkLocal, err)
		}
		la := nc.LocalAddr().String()
		nc.Close()
		if !strings.Contains(la, "%"+zone+"]") {
			t.Fatalf("VERIF-KEY:addr-zone-corrupted after %d gnet client connections to [%s] were closed and other pool users wrote to their slices, a fresh connection's local address reads %q (zone %q was overwritten)", closes, linkLocal, la, zone)
		}
	})
}
