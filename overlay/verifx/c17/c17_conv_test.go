// C17 (conversion half) — socket addresses survive conversion to the kernel form
// and back.
package c17

import (
	"fmt"
	"net"
	"strconv"
	"testing"

	"golang.org/x/sys/unix"
	"pgregory.net/rapid"

	"github.com/panjf2000/gnet/v2/pkg/socket"
	"github.com/panjf2000/gnet/v2/verifx/vstat"
)

var ifaces = func() []net.Interface {
	l, _ := net.Interfaces()
	return l
}()

// zoneIndex: what a zone string denotes for the kernel.
func zoneIndex(z string) (int, bool) {
	if z == "" {
		return 0, true
	}
	for _, ifi := range ifaces {
		if ifi.Name == z {
			return ifi.Index, true
		}
	}
	n, err := strconv.Atoi(z)
	if err != nil || n < 0 {
		return 0, false
	}
	return n, true
}

func ifaceByIndex(i int) (string, bool) {
	for _, ifi := range ifaces {
		if ifi.Index == i {
			return ifi.Name, true
		}
	}
	return "", false
}

func genZone(t *rapid.T) string {
	var names []string
	for _, ifi := range ifaces {
		names = append(names, ifi.Name)
	}
	switch k := rapid.IntRange(0, 5).Draw(t, "zoneKind"); {
	case k == 0:
		return ""
	case k == 1 && len(names) > 0:
		return rapid.SampledFrom(names).Draw(t, "ifname")
	case k == 2:
		return strconv.Itoa(rapid.IntRange(1, 12).Draw(t, "zoneNum"))
	case k == 3:
		return strconv.Itoa(rapid.SampledFrom([]int{9, 10, 11, 99, 100, 101, 999, 1000, 4242, 65535, 65536, 99999, 100000, 1 << 20, 9999999, 0xFFFFFE}).Draw(t, "zoneNum"))
	default:
		return strconv.Itoa(rapid.IntRange(1, 0xFFFFFE).Draw(t, "zoneNum"))
	}
}

func genIP(t *rapid.T) (ip net.IP, kind string) {
	switch rapid.IntRange(0, 6).Draw(t, "ipKind") {
	case 5, 6:
		// group-wise from boundary values: exact and near-miss forms of the special prefixes
		// (::ffff:a.b.c.d, ::a.b.c.d, 64:ff9b::, fe80::, ff0x::) that uniform bytes never produce
		ip := make(net.IP, 16)
		for g := 0; g < 8; g++ {
			v := rapid.SampledFrom([]int{0, 0, 0, 0xffff, 0xffff, 1, 0xfffe, 0x00ff, 0xff00, 0xfe80, 0xff02, 0x0064, 0xff9b, -1}).Draw(t, "group")
			if v < 0 {
				v = rapid.IntRange(0, 0xffff).Draw(t, "groupValue")
			}
			ip[2*g], ip[2*g+1] = byte(v>>8), byte(v)
		}
		return ip, "ipv6-structured"
	case 0:
		b := rapid.SliceOfN(rapid.Byte(), 4, 4).Draw(t, "ip4")
		return net.IP(b), "ipv4/4"
	case 1:
		b := rapid.SliceOfN(rapid.Byte(), 4, 4).Draw(t, "ip4")
		return net.IPv4(b[0], b[1], b[2], b[3]), "ipv4/16" // 16-byte v4-mapped form
	case 2:
		b := rapid.SliceOfN(rapid.Byte(), 16, 16).Draw(t, "ip6")
		return net.IP(b), "ipv6"
	case 3:
		return rapid.SampledFrom([]net.IP{net.IPv6loopback, net.IPv6unspecified, net.ParseIP("fe80::1"), net.ParseIP("ff02::1"), net.IPv4zero, net.IPv4bcast, net.ParseIP("fe80::fc:ff:fe00:1")}).Draw(t, "wellknown"), "wellknown"
	default:
		b := rapid.SliceOfN(rapid.Byte(), 14, 16).Draw(t, "ip6")
		ip := make(net.IP, 16)
		ip[0], ip[1] = 0xfe, 0x80
		copy(ip[2:], b)
		return ip, "linklocal"
	}
}

func TestC17Conversion(t *testing.T) {
	st := vstat.New("C17.conversion")
	defer st.Flush()
	rapid.Check(t, func(t *rapid.T) {
		ip, kind := genIP(t)
		port := rapid.OneOf(rapid.IntRange(0, 65535), rapid.SampledFrom([]int{0, 1, 255, 256, 257, 65535, 0x1234})).Draw(t, "port")
		zone := genZone(t)
		udp := rapid.Bool().Draw(t, "udp")
		via := rapid.SampledFrom([]string{"IPToSockaddr", "NetAddrToSockaddr"}).Draw(t, "via")
		st.Eval()
		nt := zone != "" && ip.To4() == nil
		if nt {
			st.NonTrivial(vstat.Hash(ip.String(), port, zone, udp))
			st.Label("ipv6_with_zone")
		} else {
			st.Label(kind)
		}
		var sa unix.Sockaddr
		if via == "IPToSockaddr" {
			sa = socket.IPToSockaddr(ip, port, zone)
		} else if udp {
			sa = socket.NetAddrToSockaddr(&net.UDPAddr{IP: ip, Port: port, Zone: zone})
		} else {
			sa = socket.NetAddrToSockaddr(&net.TCPAddr{IP: ip, Port: port, Zone: zone})
		}
		if sa == nil {
			t.Fatalf("VERIF-KEY:conv-nil %s(%v, %d, %q) returned nil for a valid address", via, ip, port, zone)
		}
		// the kernel form itself
		wantIdx, _ := zoneIndex(zone)
		switch s := sa.(type) {
		case *unix.SockaddrInet4:
			if ip.To4() == nil || zone != "" {
				t.Fatalf("VERIF-KEY:conv-family %v zone %q converted to an IPv4 socket address", ip, zone)
			}
			if s.Port != port || !net.IP(s.Addr[:]).Equal(ip) {
				t.Fatalf("VERIF-KEY:conv-sa %v:%d became %v:%d", ip, port, net.IP(s.Addr[:]), s.Port)
			}
		case *unix.SockaddrInet6:
			if s.Port != port || !net.IP(s.Addr[:]).Equal(ip) || int(s.ZoneId) != wantIdx {
				t.Fatalf("VERIF-KEY:conv-sa [%v%%%s]:%d became [%v%%%d]:%d", ip, zone, port, net.IP(s.Addr[:]), s.ZoneId, s.Port)
			}
		default:
			t.Fatalf("VERIF-KEY:conv-family unexpected socket address type %T", sa)
		}
		// and back
		var back net.Addr
		if udp {
			back = socket.SockaddrToUDPAddr(sa)
		} else {
			back = socket.SockaddrToTCPOrUnixAddr(sa)
		}
		var bip net.IP
		var bport int
		var bzone string
		switch a := back.(type) {
		case *net.TCPAddr:
			bip, bport, bzone = a.IP, a.Port, a.Zone
		case *net.UDPAddr:
			bip, bport, bzone = a.IP, a.Port, a.Zone
		default:
			t.Fatalf("VERIF-KEY:conv-back conversion back returned %T", back)
		}
		if st.WantSample(nt) {
			st.Sample(nt, fmt.Sprintf("[%v%%%s]:%d udp=%v -> %#v -> %v", ip, zone, port, udp, sa, back))
		}
		if !bip.Equal(ip) || bport != port {
			t.Fatalf("VERIF-KEY:conv-roundtrip [%v%%%s]:%d came back as [%v%%%s]:%d", ip, zone, port, bip, bzone, bport)
		}
		// zone: same zone; a number that is not an interface index comes back as the same decimal string
		gotIdx, ok := zoneIndex(bzone)
		if !ok || gotIdx != wantIdx {
			t.Fatalf("VERIF-KEY:conv-zone zone %q (index %d) came back as %q", zone, wantIdx, bzone)
		}
		if name, isIf := ifaceByIndex(wantIdx); isIf {
			if bzone != name {
				t.Fatalf("VERIF-KEY:conv-zone zone %q (interface %s) came back as %q", zone, name, bzone)
			}
		} else if wantIdx != 0 && bzone != strconv.Itoa(wantIdx) {
			t.Fatalf("VERIF-KEY:conv-zone numeric zone %q came back as %q", zone, bzone)
		}
	})
}

type otherAddr struct{}

func (otherAddr) Network() string { return "ip+other" }
func (otherAddr) String() string  { return "other" }

func TestC17Invalid(t *testing.T) {
	st := vstat.New("C17.invalid")
	defer st.Flush()
	rapid.Check(t, func(t *rapid.T) {
		st.Eval()
		switch rapid.SampledFrom([]string{"iplen", "unixnet", "othertype", "unixok"}).Draw(t, "kind") {
		case "iplen":
			n := rapid.IntRange(0, 20).Filter(func(n int) bool { return n != 4 && n != 16 }).Draw(t, "len")
			ip := net.IP(rapid.SliceOfN(rapid.Byte(), n, n).Draw(t, "ip"))
			if ip == nil {
				ip = net.IP{}
			}
			port := rapid.IntRange(0, 65535).Draw(t, "port")
			zone := genZone(t)
			st.NonTrivial(vstat.Hash("iplen", []byte(ip), zone))
			var res []unix.Sockaddr
			func() {
				defer func() {
					if r := recover(); r != nil {
						t.Fatalf("VERIF-KEY:conv-panic conversion of a %d-byte IP panicked: %v", n, r)
					}
				}()
				res = append(res, socket.IPToSockaddr(ip, port, zone),
					socket.NetAddrToSockaddr(&net.TCPAddr{IP: ip, Port: port, Zone: zone}),
					socket.NetAddrToSockaddr(&net.UDPAddr{IP: ip, Port: port, Zone: zone}),
					socket.NetAddrToSockaddr(&net.IPAddr{IP: ip, Zone: zone}))
			}()
			for _, sa := range res {
				if sa != nil {
					t.Fatalf("VERIF-KEY:conv-invalid a %d-byte IP %v was converted to %#v instead of nil", n, []byte(ip), sa)
				}
			}
			if st.WantSample(true) {
				st.Sample(true, fmt.Sprintf("IP of %d bytes %v zone %q -> nil", n, []byte(ip), zone))
			}
		case "unixnet":
			netw := rapid.SampledFrom([]string{"", "tcp", "udp", "unixx", "UNIX", "ip"}).Draw(t, "net")
			name := rapid.StringMatching(`[a-z/]{0,12}`).Draw(t, "name")
			st.NonTrivial(vstat.Hash("unixnet", netw, name))
			sa, typ := socket.UnixAddrToSockaddr(&net.UnixAddr{Name: name, Net: netw})
			if sa != nil || typ != 0 {
				t.Fatalf("VERIF-KEY:conv-invalid UnixAddr with network %q converted to %#v", netw, sa)
			}
			if got := socket.NetAddrToSockaddr(&net.UnixAddr{Name: name, Net: netw}); got != nil {
				t.Fatalf("VERIF-KEY:conv-invalid NetAddrToSockaddr(UnixAddr network %q) = %#v", netw, got)
			}
		case "othertype":
			if got := socket.NetAddrToSockaddr(otherAddr{}); got != nil {
				t.Fatalf("VERIF-KEY:conv-invalid unknown net.Addr type converted to %#v", got)
			}
		default:
			netw := rapid.SampledFrom([]string{"unix", "unixgram", "unixpacket"}).Draw(t, "net")
			name := rapid.OneOf(rapid.StringMatching(`/[a-zA-Z0-9._/ %-]{0,60}`), rapid.StringMatching(`[a-z]{1,8}\.sock`), rapid.Just("@abstract"), rapid.Just("")).Draw(t, "name")
			sa, typ := socket.UnixAddrToSockaddr(&net.UnixAddr{Name: name, Net: netw})
			wantT := map[string]int{"unix": unix.SOCK_STREAM, "unixgram": unix.SOCK_DGRAM, "unixpacket": unix.SOCK_SEQPACKET}[netw]
			su, ok := sa.(*unix.SockaddrUnix)
			if !ok || su.Name != name || typ != wantT {
				t.Fatalf("VERIF-KEY:conv-unix UnixAddr{%q,%q} converted to %#v type %d", name, netw, sa, typ)
			}
			back, ok := socket.SockaddrToTCPOrUnixAddr(sa).(*net.UnixAddr)
			if !ok || back.Name != name {
				t.Fatalf("VERIF-KEY:conv-unix Unix path %q came back as %v", name, back)
			}
			st.Label("unix_roundtrip")
		}
	})
}
