// C02 — outbound stream integrity and ordering under back-pressure.
package c02

import (
	"bytes"
	"encoding/binary"
	"fmt"
	"io"
	"net"
	"os"
	"strings"
	"sync"
	"sync/atomic"
	"testing"
	"time"

	"pgregory.net/rapid"

	gnet "github.com/panjf2000/gnet/v2"
	"github.com/panjf2000/gnet/v2/internal/vshim"
	"github.com/panjf2000/gnet/v2/verifx/fx"
	"github.com/panjf2000/gnet/v2/verifx/vio"
	"github.com/panjf2000/gnet/v2/verifx/vstat"
)

const stallBound = 8 * time.Second

// record: [producer u16][seq u32][len u32] payload(len), payload is a keyed
// position-dependent stream, so every byte of the outbound stream is determined.
const hdr = 10

func record(pid, seq, n int) []byte {
	b := make([]byte, hdr+n)
	binary.BigEndian.PutUint16(b, uint16(pid))
	binary.BigEndian.PutUint32(b[2:], uint32(seq))
	binary.BigEndian.PutUint32(b[6:], uint32(n))
	vio.Fill(b[hdr:], uint64(pid)<<32|uint64(seq), 0)
	return b
}

// ---- case description ---------------------------------------------------------------------

type wop struct {
	Kind  string // write, writev, readfrom, asyncwrite, asyncwritev, external
	N     int    // payload size
	Split []int  // writev / asyncwritev: segment sizes (the rest goes into a last segment); 0 = empty segment
	R     []vio.Step
	M     []wop // external producer: its operations (asyncwrite / asyncwritev)
	Gate  bool  // external: the callback blocks until the producer has issued everything (a backlog builds up behind the busy loop)
	Rep   int   // external: the operations M are repeated Rep times (large backlogs)
}

type pstep struct {
	Kind string // go, read, pause, waitob
	N    int
}

type connSpec struct {
	OpenReply int // payload size of the OnOpen reply, -1 = none
	Batches   [][]wop
	Peer      []pstep
}

type caseSpec struct {
	Cfg   fx.Cfg
	Conns []connSpec
	// ShortWrites: percentages handed to the system-call shim; the kernel is offered only that
	// share of each write/writev on the connections (0 = EAGAIN, LT mode only)
	ShortWrites []int
	// Predecessor > 0: before the checked connections, one connection answers with that many bytes
	// to a peer that reads nothing and is closed by its handler with most of them unsent (its
	// buffers go back to the pools holding data)
	Predecessor int
}

func (o wop) String() string {
	switch o.Kind {
	case "writev", "asyncwritev":
		if len(o.Split) > 8 {
			return fmt.Sprintf("%s(%d bytes in %d segments)", o.Kind, o.N, len(o.Split)+1)
		}
		return fmt.Sprintf("%s(%d bytes split %v)", o.Kind, o.N, o.Split)
	case "readfrom":
		return fmt.Sprintf("readfrom(%v)+flush", o.R)
	case "external":
		return fmt.Sprintf("external(gate=%v, %dx)%v", o.Gate, o.Rep, o.M)
	}
	return fmt.Sprintf("%s(%d)", o.Kind, o.N)
}

func (c caseSpec) String() string {
	var b strings.Builder
	fmt.Fprintf(&b, "cfg: %s shortWrites%%=%v predecessorWithUnsentOutput=%d\n", c.Cfg, c.ShortWrites, c.Predecessor)
	for i, cs := range c.Conns {
		fmt.Fprintf(&b, " conn%d: openReply %d batches %v\n        peer %v\n", i, cs.OpenReply, cs.Batches, cs.Peer)
	}
	return b.String()
}

func split(b []byte, sizes []int) [][]byte {
	var out [][]byte
	for _, n := range sizes {
		if n > len(b) {
			n = len(b)
		}
		out = append(out, b[:n:n])
		b = b[n:]
	}
	out = append(out, b)
	return out
}

// ---- per-connection state -------------------------------------------------------------------

type connState struct {
	id        int
	spec      connSpec
	cfg       fx.Cfg
	conn      gnet.Conn
	expected  bytes.Buffer // loop goroutine only: accepted payloads in effect order
	pc        int
	seq       map[int]int // loop goroutine only, except external producers own their pid
	effSeq    map[int]int // loop goroutine only: next sequence number due per async producer
	nextPid   int
	plan      *vshim.Plan
	fd        int
	pending   int32 // async operations issued whose callback has not run
	externs   int32 // external producers still running
	scriptEnd int32
	doneTotal int64 // -1 until everything has taken effect
	received  int64 // bytes the peer has read (atomic, written by the peer)
	lastOB    int64 // last observed OutboundBuffered (atomic, for waitob)
	maxOB     int
	probed    int32
	mu        sync.Mutex
	fails     []string
	closedCh  chan struct{}
	closeErr  error
	// labels
	sawList, bigIov, mixed, readFrom, openBuffered, backlog bool
}

func (st *connState) failf(key, f string, a ...any) {
	st.mu.Lock()
	if len(st.fails) < 4 {
		st.fails = append(st.fails, fmt.Sprintf("VERIF-KEY:%s conn%d: %s", key, st.id, fmt.Sprintf(f, a...)))
	}
	st.mu.Unlock()
}

func (st *connState) next(pid int) int { s := st.seq[pid]; st.seq[pid] = s + 1; return s }

// observe checks OutboundBuffered inside a callback.
func (st *connState) observe(c gnet.Conn, where string) {
	ob := c.OutboundBuffered()
	acc := st.expected.Len()
	rcv := int(atomic.LoadInt64(&st.received))
	if ob < 0 || ob > acc-rcv {
		st.failf("out-buffered", "%s: OutboundBuffered() = %d, but %d bytes were accepted and the peer has already received %d", where, ob, acc, rcv)
	}
	// exact: accepted minus what the kernel has taken for this descriptor (ledger of the shim)
	if taken := int(st.plan.Taken(st.fd)); ob != acc-taken {
		st.failf("out-buffered-exact", "%s: OutboundBuffered() = %d, but %d bytes were accepted and the kernel has taken %d of them", where, ob, acc, taken)
	}
	if ob > st.maxOB {
		st.maxOB = ob
	}
	if ob > st.cfg.WriteCap {
		st.sawList = true
	}
	atomic.StoreInt64(&st.lastOB, int64(ob))
}

func (st *connState) checkDone() {
	if atomic.LoadInt32(&st.scriptEnd) == 1 && atomic.LoadInt32(&st.pending) == 0 && atomic.LoadInt32(&st.externs) == 0 {
		atomic.StoreInt64(&st.doneTotal, int64(st.expected.Len()))
	}
}

func (st *connState) OnOpen(c gnet.Conn) ([]byte, gnet.Action) {
	st.conn = c
	st.fd = c.Fd()
	st.plan.Track(st.fd)
	var out []byte
	if st.spec.OpenReply >= 0 {
		out = record(0, st.next(0), st.spec.OpenReply)
		st.expected.Write(out)
	}
	if len(st.spec.Batches) == 0 {
		atomic.StoreInt32(&st.scriptEnd, 1)
		st.checkDone()
	}
	return out, gnet.None
}

func (st *connState) asyncCB(rec []byte, what string) gnet.AsyncCallback {
	return func(c gnet.Conn, err error) error {
		if err != nil {
			st.failf("out-async-err", "%s completed with %v on an open connection", what, err)
		} else {
			// asynchronous writes issued by one goroutine take effect in issue order
			pid, seq := int(binary.BigEndian.Uint16(rec)), int(binary.BigEndian.Uint32(rec[2:]))
			if want := st.effSeq[pid]; seq != want {
				st.failf("out-order", "%s of producer %d: request #%d took effect when #%d was due (issue order violated)", what, pid, seq, want)
			}
			st.effSeq[pid] = seq + 1
			st.expected.Write(rec)
			st.observe(c, what+" callback")
		}
		atomic.AddInt32(&st.pending, -1)
		st.checkDone()
		return nil
	}
}

func (st *connState) runOp(c gnet.Conn, o wop) {
	switch o.Kind {
	case "write":
		rec := record(0, st.next(0), o.N)
		n, err := c.Write(rec)
		if n != len(rec) || err != nil {
			st.failf("out-write", "Write(%d bytes) = (%d, %v)", len(rec), n, err)
			return
		}
		st.expected.Write(rec)
	case "writev":
		rec := record(0, st.next(0), o.N)
		segs := split(rec, o.Split)
		if len(segs) > 1024 {
			st.bigIov = true
		}
		n, err := c.Writev(segs)
		if n != len(rec) || err != nil {
			st.failf("out-writev", "Writev(%d bytes in %d slices) = (%d, %v)", len(rec), len(segs), n, err)
			return
		}
		st.expected.Write(rec)
	case "readfrom":
		st.readFrom = true
		// the reader hands out one record in scripted pieces
		var got []byte
		src := &recReader{pid: 0, st: st}
		r := &vio.Reader{Steps: append([]vio.Step(nil), o.R...), Scribble: true}
		src.inner = r
		n, err := c.ReadFrom(src)
		got = src.out
		if int(n) != len(got) {
			st.failf("out-readfrom-count", "ReadFrom reported %d bytes, the reader returned %d", n, len(got))
		}
		if r.EndsWithError() != (err != nil) {
			st.failf("out-readfrom-err", "ReadFrom returned %v, reader failed: %v", err, r.EndsWithError())
		}
		st.expected.Write(got)
		if ferr := c.Flush(); ferr != nil {
			st.failf("out-flush", "Flush returned %v", ferr)
		}
	case "asyncwrite":
		rec := record(1, st.next(1), o.N)
		atomic.AddInt32(&st.pending, 1)
		if err := c.AsyncWrite(rec, st.asyncCB(rec, "AsyncWrite")); err != nil {
			atomic.AddInt32(&st.pending, -1)
			st.failf("out-async-rejected", "AsyncWrite rejected: %v", err)
		}
		st.mixed = true
	case "asyncwritev":
		rec := record(1, st.next(1), o.N)
		segs := split(append([]byte(nil), rec...), o.Split)
		atomic.AddInt32(&st.pending, 1)
		if err := c.AsyncWritev(segs, st.asyncCB(rec, "AsyncWritev")); err != nil {
			atomic.AddInt32(&st.pending, -1)
			st.failf("out-async-rejected", "AsyncWritev rejected: %v", err)
		}
		st.mixed = true
	case "external":
		st.mixed = true
		atomic.AddInt32(&st.externs, 1)
		st.nextPid++
		pid := 1 + st.nextPid
		var ops []wop
		for r := 0; r < o.Rep || r == 0; r++ {
			ops = append(ops, o.M...)
		}
		issued := make(chan struct{})
		if o.Gate {
			defer func() { <-issued }()
			if len(ops) >= 1024 {
				st.backlog = true
			}
		}
		go func() {
			defer func() {
				atomic.AddInt32(&st.externs, -1)
				close(issued)
				// completion is re-evaluated on the loop
				_ = c.Wake(nil)
			}()
			seq := 0
			for _, m := range ops {
				rec := record(pid, seq, m.N)
				seq++
				atomic.AddInt32(&st.pending, 1)
				var err error
				if m.Kind == "asyncwritev" {
					err = c.AsyncWritev(split(append([]byte(nil), rec...), m.Split), st.asyncCB(rec, "external AsyncWritev"))
				} else {
					err = c.AsyncWrite(append([]byte(nil), rec...), st.asyncCB(rec, "external AsyncWrite"))
				}
				if err != nil {
					atomic.AddInt32(&st.pending, -1)
					st.failf("out-async-rejected", "external async write rejected: %v", err)
				}
			}
		}()
	}
}

// recReader produces the bytes of fresh records through a scripted reader.
type recReader struct {
	pid   int
	st    *connState
	inner *vio.Reader
	cur   []byte
	out   []byte
}

func (r *recReader) Read(p []byte) (int, error) {
	// let the scripted reader decide how many bytes and which error; fill with record bytes
	tmp := make([]byte, len(p))
	r.inner.Src = &vio.Gen{}
	n, err := r.inner.Read(tmp)
	for i := 0; i < n; i++ {
		if len(r.cur) == 0 {
			r.cur = record(0, r.st.next(0), 200)
		}
		p[i] = r.cur[0]
		r.cur = r.cur[1:]
	}
	for i := n; i < len(p); i++ {
		p[i] = 0xEE // scratch use of the rest of the buffer
	}
	// a record must not be torn by the end of the reader: pad the rest of the current record as consumed
	r.out = append(r.out, p[:n]...)
	return n, err
}

func (st *connState) OnTraffic(c gnet.Conn) gnet.Action {
	st.observe(c, "OnTraffic entry")
	cmds, _ := c.Next(-1)
	for _, b := range append([]byte(nil), cmds...) {
		switch b {
		case 'g':
			if st.pc < len(st.spec.Batches) {
				for _, o := range st.spec.Batches[st.pc] {
					st.runOp(c, o)
					st.observe(c, "after "+o.Kind)
				}
				st.pc++
			}
			if st.pc >= len(st.spec.Batches) {
				atomic.StoreInt32(&st.scriptEnd, 1)
			}
		case 'p':
			// the peer has received everything: nothing may be buffered any more
			if ob := c.OutboundBuffered(); ob != 0 {
				st.failf("out-buffered-final", "the peer has received all %d accepted bytes but OutboundBuffered() = %d", st.expected.Len(), ob)
			}
			atomic.StoreInt32(&st.probed, 1)
		}
	}
	st.checkDone()
	return gnet.None
}

func (st *connState) OnClose(c gnet.Conn, err error) gnet.Action {
	st.closeErr = err
	close(st.closedCh)
	return gnet.None
}

// ---- session --------------------------------------------------------------------------------

type result struct {
	fails, stalls []string
	infra         string
	states        []*connState
	shortHits     int64
}

func runSession(cs caseSpec) (res result) {
	plan := &vshim.Plan{ShortWrites: cs.ShortWrites}
	vshim.Install(plan)
	defer vshim.Install(nil)
	defer func() { res.shortHits = plan.ShortHits }()
	e, err := fx.Start(cs.Cfg, fx.EngineHooks{})
	if err != nil {
		res.infra = err.Error()
		return
	}
	defer func() {
		if err := e.Stop(); err != nil {
			res.fails = append(res.fails, "VERIF-KEY:out-stop engine stop: "+err.Error())
		}
		for _, p := range e.Logger.Panics() {
			res.fails = append(res.fails, "VERIF-KEY:panic-logged "+p)
		}
	}()
	var wg sync.WaitGroup
	var mu sync.Mutex
	addFail := func(s string) { mu.Lock(); res.fails = append(res.fails, s); mu.Unlock() }
	addStall := func(s string) { mu.Lock(); res.stalls = append(res.stalls, s); mu.Unlock() }
	if cs.Predecessor > 0 {
		pc := &predConn{n: cs.Predecessor, closed: make(chan struct{})}
		if peer, _, err := e.Connect(pc); err == nil {
			_, _ = peer.Write([]byte{'g'})
			select {
			case <-pc.closed:
			case <-time.After(8 * time.Second):
				addStall("VERIF-KEY:out-stall the predecessor connection was not closed within 8s of its handler returning Close")
			}
			peer.Close()
		}
	}
	for i := range cs.Conns {
		st := &connState{id: i, spec: cs.Conns[i], cfg: cs.Cfg, plan: plan, seq: map[int]int{}, effSeq: map[int]int{}, doneTotal: -1, closedCh: make(chan struct{})}
		res.states = append(res.states, st)
		peer, _, err := e.Connect(st)
		if err != nil {
			if strings.Contains(err.Error(), fx.ErrInfra.Error()) {
				res.infra = err.Error()
			} else {
				addFail("VERIF-KEY:out-connect " + err.Error())
			}
			break
		}
		wg.Add(1)
		go func(st *connState, peer net.Conn) {
			defer wg.Done()
			defer peer.Close()
			var got bytes.Buffer
			buf := make([]byte, 1<<20)
			readSome := func(max int, d time.Duration) (int, error) {
				if max > len(buf) {
					max = len(buf)
				}
				_ = peer.SetReadDeadline(time.Now().Add(d))
				n, err := peer.Read(buf[:max])
				if n > 0 {
					got.Write(buf[:n])
					atomic.AddInt64(&st.received, int64(n))
				}
				return n, err
			}
			gos := 0
			sendGo := func() bool {
				_ = peer.SetWriteDeadline(time.Now().Add(10 * time.Second))
				if _, err := peer.Write([]byte{'g'}); err != nil {
					addFail(fmt.Sprintf("VERIF-KEY:out-peer-write conn%d: peer could not send a command: %v", st.id, err))
					return false
				}
				gos++
				return true
			}
			small := 0
			for _, ps := range st.spec.Peer {
				switch ps.Kind {
				case "go":
					if gos < len(st.spec.Batches) && !sendGo() {
						return
					}
				case "read":
					if ps.N < 64 {
						small++
						if small > 48 {
							continue
						}
					}
					if _, err := readSome(ps.N, 20*time.Millisecond); err != nil && !isTimeout(err) {
						addFail(fmt.Sprintf("VERIF-KEY:out-peer-read conn%d: peer read failed: %v (OnClose err %v)", st.id, err, st.closeErr))
						return
					}
				case "pause":
					time.Sleep(time.Duration(ps.N) * time.Microsecond)
				case "waitob":
					dl := time.Now().Add(300 * time.Millisecond)
					for atomic.LoadInt64(&st.lastOB) < int64(ps.N) && time.Now().Before(dl) {
						time.Sleep(200 * time.Microsecond)
					}
				}
			}
			for gos < len(st.spec.Batches) {
				if !sendGo() {
					return
				}
			}
			// drain: everything accepted must arrive while we are willing to read
			last := time.Now()
			for {
				total := atomic.LoadInt64(&st.doneTotal)
				if total >= 0 && int64(got.Len()) >= total {
					break
				}
				n, err := readSome(1<<20, 50*time.Millisecond)
				if n > 0 {
					last = time.Now()
				}
				if err != nil && !isTimeout(err) {
					addFail(fmt.Sprintf("VERIF-KEY:out-peer-read conn%d: connection ended while %d of %d accepted bytes were outstanding: %v (OnClose err %v)", st.id, int64(got.Len()), total, err, st.closeErr))
					return
				}
				if time.Since(last) > stallBound {
					addStall(fmt.Sprintf("VERIF-KEY:out-stall conn%d: the peer keeps reading but nothing arrived for %v: received %d, accepted %d (script finished: %v, async pending %d, OutboundBuffered last seen %d)", st.id, stallBound, got.Len(), total, atomic.LoadInt32(&st.scriptEnd) == 1, atomic.LoadInt32(&st.pending), atomic.LoadInt64(&st.lastOB)))
					return
				}
			}
			// nothing more may come; probe OutboundBuffered == 0
			_ = peer.SetWriteDeadline(time.Now().Add(10 * time.Second))
			_, _ = peer.Write([]byte{'p'})
			dl := time.Now().Add(stallBound)
			for atomic.LoadInt32(&st.probed) == 0 && time.Now().Before(dl) {
				time.Sleep(100 * time.Microsecond)
			}
			if n, _ := readSome(4096, 2*time.Millisecond); n > 0 {
				addFail(fmt.Sprintf("VERIF-KEY:out-surplus conn%d: %d surplus bytes arrived after everything accepted had been received", st.id, n))
			}
			peer.Close()
			<-waitOrTimeout(st.closedCh, stallBound)
			// compare on the harness goroutine after the loop is done with this connection
			exp := st.expected.Bytes()
			if !bytes.Equal(got.Bytes()[:min(got.Len(), len(exp))], exp[:min(got.Len(), len(exp))]) || got.Len() != len(exp) {
				addFail(fmt.Sprintf("VERIF-KEY:out-stream conn%d: the peer received %d bytes, %d were accepted; first difference at offset %d (%s)", st.id, got.Len(), len(exp), firstDiff(got.Bytes(), exp), describeAt(got.Bytes(), exp)))
			}
		}(st, peer)
	}
	wg.Wait()
	for _, st := range res.states {
		st.mu.Lock()
		res.fails = append(res.fails, st.fails...)
		st.mu.Unlock()
	}
	return
}

func waitOrTimeout(ch chan struct{}, d time.Duration) <-chan struct{} {
	out := make(chan struct{})
	go func() {
		select {
		case <-ch:
		case <-time.After(d):
		}
		close(out)
	}()
	return out
}

func isTimeout(err error) bool {
	ne, ok := err.(net.Error)
	return ok && ne.Timeout()
}

func min(a, b int) int {
	if a < b {
		return a
	}
	return b
}

func firstDiff(a, b []byte) int {
	n := min(len(a), len(b))
	for i := 0; i < n; i++ {
		if a[i] != b[i] {
			return i
		}
	}
	return n
}

// describeAt names the records around the first difference.
func describeAt(got, exp []byte) string {
	d := firstDiff(got, exp)
	off := 0
	for off+hdr <= len(exp) {
		n := int(binary.BigEndian.Uint32(exp[off+6:]))
		if d < off+hdr+n {
			return fmt.Sprintf("inside expected record producer %d seq %d len %d at +%d", binary.BigEndian.Uint16(exp[off:]), binary.BigEndian.Uint32(exp[off+2:]), n, d-off)
		}
		off += hdr + n
	}
	return "past the last expected record"
}

// ---- generation -------------------------------------------------------------------------------

func drawSplit(t *rapid.T, total int) []int {
	switch rapid.IntRange(0, 9).Draw(t, "splitKind") {
	case 0: // more than IOV_MAX slices
		n := rapid.IntRange(1020, 1100).Draw(t, "nseg")
		s := make([]int, n)
		for i := range s {
			s[i] = rapid.IntRange(0, 3).Draw(t, "segLen")
		}
		return s
	case 1:
		n := rapid.IntRange(1025, 3000).Draw(t, "nseg")
		s := make([]int, n)
		for i := range s {
			s[i] = i % 3
		}
		return s
	default:
		n := rapid.IntRange(0, 5).Draw(t, "nseg")
		s := make([]int, n)
		for i := range s {
			s[i] = rapid.SampledFrom([]int{0, 1, 7, hdr, 100, 1000, total / 2}).Draw(t, "segLen")
		}
		return s
	}
}

func drawSize(t *rapid.T, c fx.Cfg, big bool) int {
	sizes := []int{0, 1, 100, c.WriteCap - hdr - 1, c.WriteCap - hdr, c.WriteCap - hdr + 1, 1024 - hdr, 5000, 20000}
	if big {
		sizes = append(sizes, 200000, 1<<20, 3<<20)
	}
	return rapid.SampledFrom(sizes).Draw(t, "size")
}

// predConn: see caseSpec.Predecessor.
type predConn struct {
	n      int
	closed chan struct{}
}

func (p *predConn) OnOpen(gnet.Conn) ([]byte, gnet.Action) { return nil, gnet.None }
func (p *predConn) OnTraffic(c gnet.Conn) gnet.Action {
	_, _ = c.Discard(-1)
	junk := bytes.Repeat([]byte{0xEE}, p.n)
	_, _ = c.Write(junk)
	return gnet.Close
}
func (p *predConn) OnClose(gnet.Conn, error) gnet.Action {
	close(p.closed)
	return gnet.None
}

func drawCase(t *rapid.T) caseSpec {
	var cs caseSpec
	cs.Cfg = fx.DrawCfg(t, fx.DrawOpt{SmallSnd: true})
	cs.Cfg.RcvBuf = 0
	if rapid.IntRange(0, 2).Draw(t, "predecessor") == 0 {
		cs.Predecessor = rapid.SampledFrom([]int{3000, 200000, 1 << 20, 4 << 20}).Draw(t, "predecessorBytes")
	}
	if rapid.IntRange(0, 2).Draw(t, "shortWrites") == 0 {
		pcts := []int{1, 10, 50, 99, 100, 100}
		if !cs.Cfg.ET {
			pcts = append(pcts, 0) // a faked EAGAIN is sound in LT mode only
		}
		n := rapid.IntRange(1, 6).Draw(t, "nShort")
		for i := 0; i < n; i++ {
			cs.ShortWrites = append(cs.ShortWrites, rapid.SampledFrom(pcts).Draw(t, "pct"))
		}
		cs.ShortWrites = append(cs.ShortWrites, 50) // a cycle of EAGAINs only would never make progress (the shim's fault, not gnet's)
	}
	nconn := rapid.IntRange(1, 3).Draw(t, "conns")
	for i := 0; i < nconn; i++ {
		var c connSpec
		budget := 6 << 20 // bytes per connection
		big := rapid.IntRange(0, 2).Draw(t, "bigPayloads") == 0
		take := func(n int) int {
			if n > budget {
				n = budget
			}
			budget -= n
			return n
		}
		c.OpenReply = -1
		if rapid.IntRange(0, 2).Draw(t, "openReply") == 0 {
			c.OpenReply = take(drawSize(t, cs.Cfg, big))
		}
		nb := rapid.IntRange(0, 4).Draw(t, "batches")
		kinds := []string{"write", "write", "writev", "readfrom", "asyncwrite", "asyncwritev", "external"}
		for b := 0; b < nb; b++ {
			var batch []wop
			nops := rapid.IntRange(1, 5).Draw(t, "ops")
			for k := 0; k < nops; k++ {
				o := wop{Kind: rapid.SampledFrom(kinds).Draw(t, "kind")}
				switch o.Kind {
				case "write", "asyncwrite":
					o.N = take(drawSize(t, cs.Cfg, big))
				case "writev", "asyncwritev":
					o.N = take(drawSize(t, cs.Cfg, big))
					o.Split = drawSplit(t, o.N+hdr)
				case "readfrom":
					ns := rapid.IntRange(1, 5).Draw(t, "rsteps")
					for s := 0; s < ns; s++ {
						e := 0
						if s == ns-1 {
							e = rapid.SampledFrom([]int{0, 1, 1, 2}).Draw(t, "rerr")
						}
						o.R = append(o.R, vio.Step{N: take(rapid.SampledFrom([]int{0, 1, 100, 511, 512, 513, 1024, 5000, 70000}).Draw(t, "rn")), Err: e})
					}
				case "external":
					m := rapid.IntRange(1, 6).Draw(t, "m")
					o.Gate = rapid.Bool().Draw(t, "gate")
					o.Rep = 1
					if o.Gate && rapid.IntRange(0, 3).Draw(t, "backlog") == 0 {
						// a backlog around the 1024-request threshold of the urgent queue
						o.Rep = rapid.SampledFrom([]int{200, 342, 520, 1030}).Draw(t, "rep")
						if m > 3 {
							m = 3
						}
					}
					for x := 0; x < m; x++ {
						msizes := []int{0, 1, 100, 5000, 70000}
						if o.Rep > 1 {
							msizes = []int{0, 1, 7}
						}
						mo := wop{Kind: rapid.SampledFrom([]string{"asyncwrite", "asyncwritev"}).Draw(t, "mkind"), N: take(rapid.SampledFrom(msizes).Draw(t, "msize"))}
						if mo.Kind == "asyncwritev" {
							if o.Rep > 1 {
								mo.Split = []int{3, 0}
							} else {
								mo.Split = drawSplit(t, mo.N+hdr)
							}
						}
						o.M = append(o.M, mo)
					}
				}
				batch = append(batch, o)
			}
			c.Batches = append(c.Batches, batch)
		}
		np := rapid.IntRange(0, 10).Draw(t, "peerSteps")
		for p := 0; p < np; p++ {
			ps := pstep{Kind: rapid.SampledFrom([]string{"go", "go", "read", "read", "pause", "waitob"}).Draw(t, "pkind")}
			switch ps.Kind {
			case "read":
				ps.N = rapid.SampledFrom([]int{1, 7, 1000, 65536, 1 << 20}).Draw(t, "readN")
			case "pause":
				ps.N = rapid.SampledFrom([]int{100, 1000, 20000}).Draw(t, "pauseUs")
			case "waitob":
				ps.N = rapid.SampledFrom([]int{1, cs.Cfg.WriteCap, cs.Cfg.WriteCap + 1, 100000}).Draw(t, "ob")
			}
			c.Peer = append(c.Peer, ps)
		}
		cs.Conns = append(cs.Conns, c)
	}
	return cs
}

func TestC02Sessions(t *testing.T) {
	st := vstat.New("C02.sessions")
	defer st.Flush()
	rapid.Check(t, func(t *rapid.T) {
		cs := drawCase(t)
		res := runSession(cs)
		if res.infra != "" {
			t.Fatalf("VERIF-INFRA %s\n%s", res.infra, cs)
		}
		if len(res.stalls) > 0 && len(res.fails) == 0 {
			st.Label("stall_candidate")
			res2 := runSession(cs)
			if res2.infra == "" && len(res2.stalls) == 0 && len(res2.fails) == 0 {
				st.Label("stall_not_confirmed")
				res.stalls = nil
			} else {
				res.fails = append(res.fails, res.stalls...)
				res.fails = append(res.fails, res2.fails...)
			}
		} else {
			res.fails = append(res.fails, res.stalls...)
		}
		st.Eval()
		nt := false
		for _, s := range res.states {
			st.Label("connections")
			if s.maxOB > 0 {
				nt = true
				st.NonTrivial(vstat.Hash(cs.Cfg.String(), fmt.Sprint(s.spec)))
				st.Label("conn_backpressure_observed")
			}
			if s.sawList {
				st.Label("conn_buffered_beyond_ring_limit")
			}
			if s.bigIov {
				st.Label("conn_writev_over_1024_slices")
			}
			if s.mixed {
				st.Label("conn_sync_async_mix")
			}
			if s.readFrom {
				st.Label("conn_readfrom_flush")
			}
			if s.backlog {
				st.Label("conn_async_backlog_ge_1024")
			}
		}
		if cs.Cfg.ET {
			st.Label("edge_triggered")
		}
		if cs.Cfg.Client {
			st.Label("client_side")
		}
		if res.shortHits > 0 {
			st.Label("session_with_shim_shortened_writes")
		}
		if st.WantSample(nt) {
			st.Sample(nt, cs.String())
		}
		if len(res.fails) > 0 {
			t.Fatalf("%s\ncase:\n%s", strings.Join(res.fails, "\n"), cs)
		}
	})
}

func TestMain(m *testing.M) {
	code := m.Run()
	fx.Cleanup()
	os.Exit(code)
}

var _ = io.EOF
