// C20 — power-of-two and index arithmetic is exact over the whole integer range.
package c20

import (
	"fmt"
	"math"
	"math/bits"
	"testing"

	"pgregory.net/rapid"

	"github.com/panjf2000/gnet/v2/internal/gfd"
	gmath "github.com/panjf2000/gnet/v2/pkg/math"
	"github.com/panjf2000/gnet/v2/verifx/vstat"
)

// ---- slow, obviously-correct references -------------------------------------

const maxPow = 1 << 62 // largest power of two representable in int (64-bit)

// refCeil: smallest power of two >= max(n,2); ok=false when none exists.
func refCeil(n int) (int, bool) {
	if n < 2 {
		n = 2
	}
	if n > maxPow {
		return 0, false
	}
	p := 1
	for p < n {
		p *= 2
	}
	return p, true
}

// refFloor: n for n <= 2, else the largest power of two <= n.
func refFloor(n int) int {
	if n <= 2 {
		return n
	}
	p := 1
	for p <= n/2 {
		p *= 2
	}
	return p
}

// refClosest for 1 <= n <= 2^62: nearer neighbouring power, the upper one on a tie.
func refClosest(n int) int {
	if n == 1 {
		return 1 // 2^0 itself
	}
	lo := refFloor(n)
	if lo == n {
		return n
	}
	hi := lo * 2 // lo < n <= 2^62 hence lo <= 2^61
	if n-lo < hi-n {
		return lo
	}
	return hi
}

func refIsPow(n int) bool { return n > 0 && bits.OnesCount64(uint64(n)) == 1 }

func callCeil(n int) (v int, panicked bool) {
	defer func() {
		if recover() != nil {
			panicked = true
		}
	}()
	return gmath.CeilToPowerOfTwo(n), false
}

func nearPow(n int) bool {
	if n <= 0 {
		return false
	}
	for d := -3; d <= 3; d++ {
		m := n + d
		if m > 0 && m >= n-3 && refIsPow(m) {
			return true
		}
	}
	return false
}

// checkOne evaluates all four functions on n; returns "" or a failure text.
func checkOne(n int) string {
	got, pan := callCeil(n)
	want, ok := refCeil(n)
	switch {
	case !ok && !pan:
		return fmt.Sprintf("VERIF-KEY:ceil-nopanic CeilToPowerOfTwo(%d) = %d, want panic (no power of two fits)", n, got)
	case ok && pan:
		return fmt.Sprintf("VERIF-KEY:ceil-panic CeilToPowerOfTwo(%d) panicked, want %d", n, want)
	case ok && got != want:
		return fmt.Sprintf("VERIF-KEY:ceil CeilToPowerOfTwo(%d) = %d, want %d", n, got, want)
	}
	if g, w := gmath.FloorToPowerOfTwo(n), refFloor(n); g != w {
		return fmt.Sprintf("VERIF-KEY:floor FloorToPowerOfTwo(%d) = %d, want %d", n, g, w)
	}
	if g, w := gmath.IsPowerOfTwo(n), refIsPow(n); g != w {
		return fmt.Sprintf("VERIF-KEY:ispow IsPowerOfTwo(%d) = %v, want %v", n, g, w)
	}
	if n >= 1 && n <= maxPow {
		if g, w := gmath.ClosestPowerOfTwo(n), refClosest(n); g != w {
			return fmt.Sprintf("VERIF-KEY:closest ClosestPowerOfTwo(%d) = %d, want %d", n, g, w)
		}
	}
	return ""
}

func note(st *vstat.Stats, n int) {
	st.Eval()
	if nearPow(n) || n > 1<<32 {
		st.NonTrivial(uint64(n))
		if n > 1<<32 {
			st.Label("above_2^32")
		} else {
			st.Label("near_power")
		}
	} else if n <= 0 {
		st.Label("non_positive")
	} else {
		st.Label("plain")
	}
}

// Boundary table: 2^k+d for k in 0..62, d in -3..3, negatives, extremes.
func TestC20Boundaries(t *testing.T) {
	st := vstat.New("C20.boundaries")
	defer st.Flush()
	var vals []int
	for k := 0; k <= 62; k++ {
		for d := -3; d <= 3; d++ {
			vals = append(vals, (1<<k)+d)
		}
	}
	vals = append(vals, math.MaxInt, math.MaxInt-1, math.MaxInt-2, math.MinInt, math.MinInt+1, -1, -2, -3, -1<<31, -1<<32, -1<<62)
	for _, n := range vals {
		note(st, n)
		if msg := checkOne(n); msg != "" {
			t.Fatal(msg)
		}
	}
	st.Sample(true, fmt.Sprintf("n=2^40+1 -> ceil=%d floor=%d closest=%d", gmath.CeilToPowerOfTwo(1<<40+1), gmath.FloorToPowerOfTwo(1<<40+1), gmath.ClosestPowerOfTwo(1<<40+1)))
}

func genInt() *rapid.Generator[int] {
	return rapid.OneOf(
		rapid.Int(),
		rapid.IntRange(-8, 70000),
		rapid.Custom(func(t *rapid.T) int {
			k := rapid.IntRange(0, 62).Draw(t, "k")
			d := rapid.IntRange(-40, 40).Draw(t, "d")
			return (1 << k) + d
		}),
		rapid.Custom(func(t *rapid.T) int { // random mantissa under a random top bit
			k := rapid.IntRange(1, 62).Draw(t, "k")
			return (1 << k) | rapid.IntRange(0, (1<<k)-1).Draw(t, "m")
		}),
	)
}

func TestC20Random(t *testing.T) {
	st := vstat.New("C20.random")
	defer st.Flush()
	rapid.Check(t, func(rt *rapid.T) {
		n := genInt().Draw(rt, "n")
		note(st, n)
		if st.WantSample(nearPow(n)) {
			c, p := callCeil(n)
			st.Sample(nearPow(n), fmt.Sprintf("n=%d ceil=%d(panic=%v) floor=%d ispow=%v", n, c, p, gmath.FloorToPowerOfTwo(n), gmath.IsPowerOfTwo(n)))
		}
		if msg := checkOne(n); msg != "" {
			rt.Fatal(msg)
		}
	})
}

// Exhaustive sweep over the signed 32-bit range, sharded. The reference is
// advanced incrementally (floor/ceil powers only change when n crosses a power
// of two) and re-validated against the loop reference at every crossing; the
// functions under test are called on every value.
func TestC20Sweep32(t *testing.T) {
	st := vstat.New("C20.sweep32")
	defer st.Flush()
	k, ns := vstat.Shard()
	lo64, hi64 := int64(math.MinInt32), int64(math.MaxInt32)
	if !vstat.Thorough() {
		// quick tier: the 2^26 values around zero plus 2^24 at each end of the range
		ranges := [][2]int64{{-1 << 25, 1 << 25}, {lo64, lo64 + 1<<24}, {hi64 - 1<<24, hi64}}
		r := ranges[k%3]
		sweep(t, st, r[0], r[1])
		st.Set("exhaustive", false)
		return
	}
	total := hi64 - lo64 + 1
	per := total / int64(ns)
	a := lo64 + per*int64(k)
	b := a + per - 1
	if k == ns-1 {
		b = hi64
	}
	sweep(t, st, a, b)
	st.Set("exhaustive", true)
	st.Set("range", fmt.Sprintf("[%d,%d]", a, b))
}

func sweep(t *testing.T, st *vstat.Stats, a, b int64) {
	var evals, nt int64
	n := int(a)
	fl := refFloor(n)   // floor power (or n when n<=2)
	ce, _ := refCeil(n) // ceil power
	for ; int64(n) <= b; n++ {
		// advance incremental reference
		if n > 2 {
			if n == fl*2 {
				fl = n
			}
			if n > ce {
				ce *= 2
			}
			if refIsPow(n) || refIsPow(n-1) { // re-validate at crossings
				if fl != refFloor(n) {
					t.Fatalf("VERIF-INFRA incremental floor reference out of sync at %d", n)
				}
				if c, _ := refCeil(n); c != ce {
					t.Fatalf("VERIF-INFRA incremental ceil reference out of sync at %d", n)
				}
			}
		} else {
			fl = n
			ce = 2
		}
		evals++
		if g := gmath.CeilToPowerOfTwo(n); g != ce {
			t.Fatalf("VERIF-KEY:ceil CeilToPowerOfTwo(%d) = %d, want %d", n, g, ce)
		}
		if g := gmath.FloorToPowerOfTwo(n); g != fl {
			t.Fatalf("VERIF-KEY:floor FloorToPowerOfTwo(%d) = %d, want %d", n, g, fl)
		}
		isp := n > 0 && (n == 1 || n == fl)
		if g := gmath.IsPowerOfTwo(n); g != isp {
			t.Fatalf("VERIF-KEY:ispow IsPowerOfTwo(%d) = %v, want %v", n, g, isp)
		}
		if n >= 1 {
			want := ce
			if n == 1 {
				want = 1
			} else if n-fl < ce-n {
				want = fl
			}
			if g := gmath.ClosestPowerOfTwo(n); g != want {
				t.Fatalf("VERIF-KEY:closest ClosestPowerOfTwo(%d) = %d, want %d", n, g, want)
			}
		}
		if n > 0 && (n-fl <= 3 || ce-n <= 3) {
			nt++
			st.NonTrivial(uint64(n))
		}
	}
	st.EvalN(evals)
	st.LabelN("near_power", nt)
	st.Sample(true, fmt.Sprintf("swept every int in [%d,%d] (%d values)", a, b, evals))
}

// GFD pack/unpack round trip.
func TestC20GFD(t *testing.T) {
	st := vstat.New("C20.gfd")
	defer st.Flush()
	fdGen := rapid.OneOf(rapid.IntRange(0, 70000), rapid.IntRange(0, math.MaxInt), rapid.Custom(func(t *rapid.T) int {
		k := rapid.IntRange(0, 62).Draw(t, "k")
		d := rapid.IntRange(-2, 2).Draw(t, "d")
		v := (1 << k) + d
		if v < 0 {
			v = 0
		}
		return v
	}))
	edge8 := rapid.OneOf(rapid.IntRange(0, 255), rapid.SampledFrom([]int{0, 1, 127, 128, 254, 255}))
	edge16 := rapid.OneOf(rapid.IntRange(0, 65535), rapid.SampledFrom([]int{0, 1, 255, 256, 32767, 32768, 65534, 65535}))
	rapid.Check(t, func(rt *rapid.T) {
		fd := fdGen.Draw(rt, "fd")
		el := edge8.Draw(rt, "loop")
		row := edge8.Draw(rt, "row")
		col := edge16.Draw(rt, "col")
		st.Eval()
		g := gfd.NewGFD(fd, el, row, col)
		if g.Fd() != fd || g.EventLoopIndex() != el || g.ConnMatrixRow() != row || g.ConnMatrixColumn() != col {
			rt.Fatalf("VERIF-KEY:gfd NewGFD(%d,%d,%d,%d) unpacks to (%d,%d,%d,%d)", fd, el, row, col, g.Fd(), g.EventLoopIndex(), g.ConnMatrixRow(), g.ConnMatrixColumn())
		}
		seq := g.Sequence()
		row2 := edge8.Draw(rt, "row2")
		col2 := edge16.Draw(rt, "col2")
		g.UpdateIndexes(row2, col2)
		if g.Fd() != fd || g.EventLoopIndex() != el || g.ConnMatrixRow() != row2 || g.ConnMatrixColumn() != col2 || g.Sequence() != seq {
			rt.Fatalf("VERIF-KEY:gfd-update UpdateIndexes(%d,%d) on (%d,%d,%d,%d) gives (%d,%d,%d,%d) seq %d->%d", row2, col2, fd, el, row, col, g.Fd(), g.EventLoopIndex(), g.ConnMatrixRow(), g.ConnMatrixColumn(), seq, g.Sequence())
		}
		h := gfd.NewGFD(fd, el, row, col)
		if h.Sequence() == seq {
			rt.Fatalf("VERIF-KEY:gfd-seq two identifiers share sequence %d", seq)
		}
		if fd > 1<<32 || col >= 256 || row >= 128 {
			st.NonTrivial(vstat.Hash(fd, el, row, col, row2, col2))
			st.Label("wide_field")
		}
		if st.WantSample(fd > 1<<32) {
			st.Sample(fd > 1<<32, fmt.Sprintf("NewGFD(fd=%d,loop=%d,row=%d,col=%d) then UpdateIndexes(%d,%d)", fd, el, row, col, row2, col2))
		}
	})
}
