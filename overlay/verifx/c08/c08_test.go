// C08 — UDP datagram fidelity: one datagram, one event, right peer, intact boundaries.
package c08

import (
	"bytes"
	"encoding/binary"
	"fmt"
	"net"
	"os"
	"strings"
	"sync"
	"sync/atomic"
	"testing"
	"time"

	"pgregory.net/rapid"

	gnet "github.com/panjf2000/gnet/v2"
	"github.com/panjf2000/gnet/v2/verifx/fx"
	"github.com/panjf2000/gnet/v2/verifx/vio"
	"github.com/panjf2000/gnet/v2/verifx/vstat"
)

const hdr = 8 // [sender u32][seq u32]

// dgram builds datagram (sender, seq) of n bytes; datagrams shorter than the
// header carry only position-dependent bytes (they are identified by source
// address and order instead).
func dgram(sender, seq, n int) []byte {
	b := make([]byte, n)
	if n >= hdr {
		binary.BigEndian.PutUint32(b, uint32(sender))
		binary.BigEndian.PutUint32(b[4:], uint32(seq))
		vio.Fill(b[hdr:], uint64(sender)<<32|uint64(seq), 0)
	} else {
		vio.Fill(b, uint64(sender)<<32|uint64(seq)|1<<60, 0)
	}
	return b
}

type evMode struct {
	Consume string // all, part, none, next1
	Reply   int    // size of the Write reply (>= hdr), -1 = echo the datagram
	SendTo  bool   // additionally SendTo the collector socket
	To16    bool   // pass the collector address in 16-byte IPv4 form
	Async   bool   // raw cases: reply with AsyncWrite (documented to go synchronously with UDP) instead of Write
	FailTo  bool   // before the reply, a SendTo to the collector that cannot succeed (70000 bytes: EMSGSIZE)
}

type caseSpec struct {
	// Mixed: the engine listens on udp4 and udp6 (Rotate); sender i uses the family i%2 decides
	Mixed bool
	// ScratchAddr: SendTo is always given one and the same *net.UDPAddr object, re-filled before each call
	// with one of two collector addresses (a fan-out loop re-using its address variable)
	ScratchAddr bool
	// Raw: the handler answers every datagram with exactly the bytes it peeked (zero copy, possibly none
	// at all) before consuming them; replies are matched by content instead of by a reply header.
	Raw     bool
	Net     string // udp4, udp6
	Loops   int
	ReadCap int
	Senders [][]int // per sender: datagram sizes
	Modes   []evMode
}

func (c caseSpec) String() string {
	return fmt.Sprintf("%s loops=%d rcap=%d raw=%v mixedFamilies=%v scratchSendToAddr=%v senders=%v modes=%+v", c.Net, c.Loops, c.ReadCap, c.Raw, c.Mixed, c.ScratchAddr, c.Senders, c.Modes)
}

type server struct {
	cs              caseSpec
	mu              sync.Mutex
	addrOf          map[string]int // sender address -> sender id
	nextSmall       map[int]int    // next expected sequence number of header-less datagrams per sender
	smallSeqs       map[int][]int  // per sender: sequence numbers of its header-less datagrams, in order
	seen            map[[2]int]int
	sentTo          map[[2]int][]byte // what SendTo was asked to deliver to the third socket
	fails           []string
	nev             int
	collector       net.Addr
	collector16     net.Addr
	collector2      *net.UDPAddr // second SendTo target (scratch-address cases)
	scratch         *net.UDPAddr // the one address object handed to every SendTo in scratch-address cases
	sentTo2         map[[2]int][]byte
	nsend           int
	partial         bool // an event consumed only part/none and another event followed on the same loop
	lastLoopPartial map[gnet.EventLoop]bool
}

func (s *server) failf(key, f string, a ...any) {
	if len(s.fails) < 6 {
		s.fails = append(s.fails, fmt.Sprintf("VERIF-KEY:%s %s", key, fmt.Sprintf(f, a...)))
	}
}

func (s *server) OnOpen(c gnet.Conn) ([]byte, gnet.Action)   { return nil, gnet.None }
func (s *server) OnClose(c gnet.Conn, err error) gnet.Action { return gnet.None }

func (s *server) OnTraffic(c gnet.Conn) gnet.Action {
	s.mu.Lock()
	defer s.mu.Unlock()
	n := c.InboundBuffered()
	b, err := c.Peek(-1)
	if err != nil || len(b) != n {
		s.failf("udp-peek", "Peek(-1) returned %d bytes, err %v, InboundBuffered %d", len(b), err, n)
		return gnet.None
	}
	from := c.RemoteAddr().String()
	sender, known := s.addrOf[from]
	if !known {
		s.failf("udp-remote", "event with RemoteAddr %s which is no sender's address (payload %d bytes)", from, n)
		return gnet.None
	}
	var seq int
	if n >= hdr {
		hs := int(binary.BigEndian.Uint32(b))
		seq = int(binary.BigEndian.Uint32(b[4:]))
		if hs != sender {
			s.failf("udp-remote", "a datagram of sender %d was delivered with RemoteAddr %s (sender %d)", hs, from, sender)
			return gnet.None
		}
	} else {
		k := s.nextSmall[sender]
		if k >= len(s.smallSeqs[sender]) {
			s.failf("udp-invented", "sender %d: an unexpected %d-byte datagram", sender, n)
			return gnet.None
		}
		seq = s.smallSeqs[sender][k]
		s.nextSmall[sender] = k + 1
	}
	if seq >= len(s.cs.Senders[sender]) || !bytes.Equal(b, dgram(sender, seq, s.cs.Senders[sender][seq])) {
		want := -1
		if seq < len(s.cs.Senders[sender]) {
			want = s.cs.Senders[sender][seq]
		}
		s.failf("udp-payload", "event for datagram %d.%d offers %d bytes that are not exactly that datagram's %d-byte payload (merged, split, truncated or stale data)", sender, seq, n, want)
	}
	s.seen[[2]int{sender, seq}]++
	if s.lastLoopPartial[c.EventLoop()] {
		s.partial = true
	}
	m := s.cs.Modes[s.nev%len(s.cs.Modes)]
	s.nev++
	payload := append([]byte(nil), b...)
	if s.cs.Raw {
		// the peeked bytes are valid until they are consumed: answer first
		var w int
		var err error
		if m.Async {
			err = c.AsyncWrite(b, nil)
			w = len(b)
		} else {
			w, err = c.Write(b)
		}
		if err != nil || w != len(b) {
			s.failf("udp-write", "Write/AsyncWrite of the %d peeked bytes returned (%d, %v)", len(b), w, err)
		}
	}
	switch m.Consume {
	case "all":
		_, _ = c.Discard(-1)
		s.lastLoopPartial[c.EventLoop()] = false
	case "part":
		if n > 1 {
			_, _ = c.Discard(n / 2)
		}
		s.lastLoopPartial[c.EventLoop()] = true
	case "next1":
		if n > 0 {
			_, _ = c.Next(1)
		}
		s.lastLoopPartial[c.EventLoop()] = true
	default:
		s.lastLoopPartial[c.EventLoop()] = true
	}
	if s.cs.Raw {
		return gnet.None
	}
	// reply: [sender][seq] + generated bytes, or the echo
	var reply []byte
	if m.Reply < 0 && len(payload)+ackLen <= 65507 {
		reply = append(ack(sender, seq, len(payload)), payload...)
	} else if m.Reply < 0 {
		reply = append(ack(sender, seq, 100), dgram(sender, seq, 100)...) // an echo would not fit into one datagram
	} else {
		reply = append(ack(sender, seq, m.Reply), dgram(sender, seq, m.Reply)...)
	}
	if m.FailTo && !s.cs.Mixed {
		// a SendTo that fails must leave no trace: the reply below still goes to this datagram's sender
		if w, err := c.SendTo(tooBig, s.collector); err == nil {
			s.failf("udp-sendto", "SendTo of %d bytes (more than a datagram holds) returned (%d, nil)", len(tooBig), w)
		} else if w != 0 {
			s.failf("udp-sendto", "SendTo returned (%d, %v): a byte count together with an error", w, err)
		}
	}
	if w, err := c.Write(reply); err != nil || w != len(reply) {
		s.failf("udp-write", "Write of a %d-byte reply returned (%d, %v)", len(reply), w, err)
	}
	if m.SendTo && !s.cs.Mixed {
		var to net.Addr = s.collector
		if m.To16 {
			to = s.collector16
		}
		second := false
		if s.cs.ScratchAddr {
			// the same address object every time, re-filled with this call's destination
			dst := s.collector.(*net.UDPAddr)
			if s.nsend%2 == 1 {
				dst, second = s.collector2, true
			}
			s.nsend++
			s.scratch.IP = append(s.scratch.IP[:0], dst.IP...)
			s.scratch.Port = dst.Port
			to = s.scratch
		}
		if w, err := c.SendTo(reply, to); err != nil || w != len(reply) {
			s.failf("udp-sendto", "SendTo(%d bytes, %v) returned (%d, %v)", len(reply), to, w, err)
		} else if second {
			s.sentTo2[[2]int{sender, seq}] = append([]byte(nil), reply...)
		} else {
			s.sentTo[[2]int{sender, seq}] = append([]byte(nil), reply...)
		}
	}
	return gnet.None
}

// ack is the reply header: [sender|0xA0000000][seq][length of the body that follows]
func ack(sender, seq, bodyLen int) []byte {
	b := make([]byte, ackLen)
	binary.BigEndian.PutUint32(b, uint32(sender)|0xA0000000)
	binary.BigEndian.PutUint32(b[4:], uint32(seq))
	binary.BigEndian.PutUint32(b[8:], uint32(bodyLen))
	return b
}

const ackLen = 12

var tooBig = make([]byte, 70000)

func runCase(cs caseSpec) (fails []string, infra string, s *server) {
	s = &server{cs: cs, addrOf: map[string]int{}, nextSmall: map[int]int{}, smallSeqs: map[int][]int{}, seen: map[[2]int]int{}, sentTo: map[[2]int][]byte{}, sentTo2: map[[2]int][]byte{}, scratch: &net.UDPAddr{}, lastLoopPartial: map[gnet.EventLoop]bool{}}
	host := fx.Host(cs.Net)
	ip := net.ParseIP(strings.Trim(host, "[]"))
	other := "udp6"
	if cs.Net == "udp6" {
		other = "udp4"
	}
	famOf := func(i int) string {
		if cs.Mixed && i%2 == 1 {
			return other
		}
		return cs.Net
	}
	// sender sockets and the collector are bound before the engine starts
	type snd struct {
		c     *net.UDPConn
		sizes []int
	}
	var snds []*snd
	for i, sizes := range cs.Senders {
		c, err := net.ListenUDP(famOf(i), &net.UDPAddr{IP: net.ParseIP(strings.Trim(fx.Host(famOf(i)), "[]"))})
		if err != nil {
			return nil, "sender socket: " + err.Error(), s
		}
		defer c.Close()
		_ = c.SetReadBuffer(4 << 20)
		_ = c.SetWriteBuffer(4 << 20)
		s.addrOf[c.LocalAddr().String()] = i
		for seq, n := range sizes {
			if n < hdr {
				s.smallSeqs[i] = append(s.smallSeqs[i], seq)
			}
		}
		snds = append(snds, &snd{c, sizes})
	}
	col, err := net.ListenUDP(cs.Net, &net.UDPAddr{IP: ip})
	if err != nil {
		return nil, "collector socket: " + err.Error(), s
	}
	defer col.Close()
	ca := col.LocalAddr().(*net.UDPAddr)
	s.collector = &net.UDPAddr{IP: ca.IP, Port: ca.Port}
	s.collector16 = &net.UDPAddr{IP: ca.IP.To16(), Port: ca.Port}
	if ip4 := ca.IP.To4(); ip4 != nil {
		s.collector = &net.UDPAddr{IP: ip4, Port: ca.Port}
	}
	col2, err := net.ListenUDP(cs.Net, &net.UDPAddr{IP: ip})
	if err != nil {
		return nil, "collector socket: " + err.Error(), s
	}
	defer col2.Close()
	ca2 := col2.LocalAddr().(*net.UDPAddr)
	s.collector2 = &net.UDPAddr{IP: ca2.IP, Port: ca2.Port}
	if ip4 := ca2.IP.To4(); ip4 != nil {
		s.collector2.IP = ip4
	}
	cfg := fx.Cfg{Net: cs.Net, Loops: cs.Loops, ReadCap: cs.ReadCap, WriteCap: 1024, RcvBuf: 4 << 20, SndBuf: 4 << 20}
	if cs.Mixed {
		cfg.ExtraNets = []string{other}
	}
	e, err := fx.Start(cfg, fx.EngineHooks{Unbound: func(gnet.Conn) fx.ConnHooks { return s }})
	if err != nil {
		return nil, err.Error(), s
	}
	defer func() {
		if err := e.Stop(); err != nil {
			fails = append(fails, "VERIF-KEY:udp-stop "+err.Error())
		}
		for _, p := range e.Logger.Panics() {
			fails = append(fails, "VERIF-KEY:panic-logged "+p)
		}
	}()
	raddr0, err := net.ResolveUDPAddr(cs.Net, e.Addr)
	if err != nil {
		return nil, "resolve: " + err.Error(), s
	}
	raddrOther := raddr0
	if cs.Mixed {
		if raddrOther, err = net.ResolveUDPAddr(other, e.Addrs[len(e.Addrs)-1]); err != nil {
			return nil, "resolve: " + err.Error(), s
		}
	}
	raddrOf := func(i int) *net.UDPAddr {
		if famOf(i) == cs.Net {
			return raddr0
		}
		return raddrOther
	}
	// collector: counts what SendTo delivered
	var colMu sync.Mutex
	colGot := map[[2]int][]byte{}
	colGot2 := map[[2]int][]byte{}
	colExtra := 0
	colStop := make(chan struct{})
	var colWG sync.WaitGroup
	collect := func(col *net.UDPConn, colGot map[[2]int][]byte) {
		defer colWG.Done()
		buf := make([]byte, 70000)
		for {
			_ = col.SetReadDeadline(time.Now().Add(5 * time.Millisecond))
			n, _, err := col.ReadFromUDP(buf)
			if err != nil {
				select {
				case <-colStop:
					return
				default:
					continue
				}
			}
			colMu.Lock()
			if n >= ackLen && int(binary.BigEndian.Uint32(buf[8:])) == n-ackLen {
				k := [2]int{int(binary.BigEndian.Uint32(buf) &^ 0xA0000000), int(binary.BigEndian.Uint32(buf[4:]))}
				if _, dup := colGot[k]; dup {
					colExtra++
				}
				colGot[k] = append([]byte(nil), buf[:n]...)
			} else {
				colExtra++ // torn, truncated or foreign datagram
			}
			colMu.Unlock()
		}
	}
	colWG.Add(2)
	go collect(col, colGot)
	go collect(col2, colGot2)
	var inflight int64 // bytes in flight over all senders (keeps the kernel from dropping)
	var wg sync.WaitGroup
	var fmu sync.Mutex
	add := func(f string, a ...any) { fmu.Lock(); fails = append(fails, fmt.Sprintf(f, a...)); fmu.Unlock() }
	// event mode per (global) event index is not known to the senders; replies are matched by (sender, seq)
	for i, sd := range snds {
		wg.Add(1)
		go func(i int, sd *snd) {
			defer wg.Done()
			buf := make([]byte, 140000)
			pending := map[int]bool{}
			got := map[int]int{}
			defer func() { // a sender that gives up releases its share of the window
				for seq := range pending {
					atomic.AddInt64(&inflight, -int64(sd.sizes[seq]+64))
				}
			}()
			recvOne := func(d time.Duration) bool {
				_ = sd.c.SetReadDeadline(time.Now().Add(d))
				n, from, err := sd.c.ReadFromUDP(buf)
				if err != nil {
					return false
				}
				if raddr := raddrOf(i); from.Port != raddr.Port {
					add("VERIF-KEY:udp-reply-from sender %d: a reply came from %v, not from the listener %v", i, from, raddr)
				}
				if cs.Raw {
					// the reply is the datagram itself
					var seq int
					if n >= hdr {
						if hs := int(binary.BigEndian.Uint32(buf)); hs != i {
							add("VERIF-KEY:udp-reply-misdirected sender %d received a %d-byte datagram that is not a reply to it", i, n)
							return true
						}
						seq = int(binary.BigEndian.Uint32(buf[4:]))
					} else {
						// header-less datagrams fly one at a time: this answers the pending one
						seq = -1
						for k := range pending {
							if sd.sizes[k] < hdr {
								seq = k
							}
						}
					}
					if seq < 0 || seq >= len(sd.sizes) || !bytes.Equal(buf[:n], dgram(i, seq, sd.sizes[seq])) {
						add("VERIF-KEY:udp-reply-payload sender %d received a %d-byte reply that is not exactly the bytes the handler was given for any pending datagram (pending %v)", i, n, keys(pending))
						return true
					}
					got[seq]++
					if pending[seq] {
						delete(pending, seq)
						atomic.AddInt64(&inflight, -int64(sd.sizes[seq]+64))
					}
					return true
				}
				if n < ackLen || int(binary.BigEndian.Uint32(buf)&^0xA0000000) != i || binary.BigEndian.Uint32(buf)&0xA0000000 != 0xA0000000 {
					add("VERIF-KEY:udp-reply-misdirected sender %d received a %d-byte datagram that is not a reply to it", i, n)
					return true
				}
				seq := int(binary.BigEndian.Uint32(buf[4:]))
				got[seq]++
				if pending[seq] {
					delete(pending, seq)
					atomic.AddInt64(&inflight, -int64(sd.sizes[seq]+64))
				}
				// the reply body is either the echo or a generated payload of some size
				body := buf[ackLen:n]
				if want := int(binary.BigEndian.Uint32(buf[8:])); want != len(body) {
					add("VERIF-KEY:udp-reply-payload sender %d: the reply to datagram %d carries %d body bytes, the handler wrote %d", i, seq, len(body), want)
				}
				if !bytes.Equal(body, dgram(i, seq, sd.sizes[seq])) && !bytes.Equal(body, dgram(i, seq, len(body))) {
					add("VERIF-KEY:udp-reply-payload sender %d: the reply to datagram %d carries %d bytes that are neither its echo nor the handler's reply", i, seq, len(body))
				}
				return true
			}
			for seq, n := range sd.sizes {
				// window: small in-flight volume; header-less datagrams one at a time
				for {
					// at most 64 KiB in flight over all senders (a single larger datagram may fly alone)
					lim := int64(64 << 10)
					over := atomic.LoadInt64(&inflight)+int64(n) > lim
					if (n < hdr && len(pending) > 0) || (len(pending) >= 8) || (len(pending) > 0 && over) {
						if !recvOne(3 * time.Second) {
							add("VERIF-KEY:udp-lost sender %d: no reply to datagram(s) %v within 3s (each datagram must produce exactly one event)", i, keys(pending))
							return
						}
						continue
					}
					break
				}
				for len(pending) == 0 && atomic.LoadInt64(&inflight) > 0 && atomic.LoadInt64(&inflight)+int64(n) > int64(64<<10) {
					time.Sleep(50 * time.Microsecond) // other senders' datagrams are in flight
				}
				pending[seq] = true
				atomic.AddInt64(&inflight, int64(n+64))
				if _, err := sd.c.WriteToUDP(dgram(i, seq, n), raddrOf(i)); err != nil {
					add("VERIF-INFRA sender %d: send of %d bytes failed: %v", i, n, err)
					return
				}
				if n < hdr { // identified by order: wait for its event
					if !recvOne(3 * time.Second) {
						add("VERIF-KEY:udp-lost sender %d: no reply to the %d-byte datagram %d within 3s", i, n, seq)
						return
					}
				}
			}
			for len(pending) > 0 {
				if !recvOne(3 * time.Second) {
					add("VERIF-KEY:udp-lost sender %d: no reply to datagram(s) %v within 3s (each datagram must produce exactly one event)", i, keys(pending))
					return
				}
			}
			for recvOne(3 * time.Millisecond) {
			}
			for seq, k := range got {
				if k != 1 {
					add("VERIF-KEY:udp-reply-count sender %d received %d replies to datagram %d", i, k, seq)
				}
			}
		}(i, sd)
	}
	wg.Wait()
	time.Sleep(3 * time.Millisecond)
	close(colStop)
	colWG.Wait()
	s.mu.Lock()
	defer s.mu.Unlock()
	for i, sizes := range cs.Senders {
		for seq := range sizes {
			if k := s.seen[[2]int{i, seq}]; k != 1 && len(fails) == 0 {
				fails = append(fails, fmt.Sprintf("VERIF-KEY:udp-event-count datagram %d.%d (%d bytes) produced %d OnTraffic events", i, seq, sizes[seq], k))
			}
		}
	}
	fails = append(fails, s.fails...)
	colMu.Lock()
	for ci, pair := range []struct {
		sent, got map[[2]int][]byte
	}{{s.sentTo, colGot}, {s.sentTo2, colGot2}} {
		for k, want := range pair.sent {
			if got, ok := pair.got[k]; !ok {
				fails = append(fails, fmt.Sprintf("VERIF-KEY:udp-sendto-lost SendTo for datagram %d.%d (%d bytes) never reached the given address (target socket %d)", k[0], k[1], len(want), ci))
				break
			} else if !bytes.Equal(got, want) {
				fails = append(fails, fmt.Sprintf("VERIF-KEY:udp-sendto-payload the given address received %d bytes for datagram %d.%d, SendTo was given %d other bytes", len(got), k[0], k[1], len(want)))
				break
			}
		}
		for k := range pair.got {
			if _, ok := pair.sent[k]; !ok {
				fails = append(fails, fmt.Sprintf("VERIF-KEY:udp-sendto-surplus target socket %d received a datagram for %d.%d that nobody sent to it", ci, k[0], k[1]))
				break
			}
		}
	}
	colMu.Unlock()
	if colExtra > 0 {
		fails = append(fails, fmt.Sprintf("VERIF-KEY:udp-sendto-surplus the SendTo target received %d surplus datagrams", colExtra))
	}
	return fails, "", s
}

func keys(m map[int]bool) []int {
	var k []int
	for x := range m {
		k = append(k, x)
	}
	return k
}

func drawCase(t *rapid.T) caseSpec {
	var cs caseSpec
	nets := []string{"udp4", "udp4"}
	if fx.HasIPv6 {
		nets = append(nets, "udp6")
	}
	cs.Net = rapid.SampledFrom(nets).Draw(t, "net")
	cs.Loops = rapid.IntRange(1, 4).Draw(t, "loops")
	cs.ReadCap = rapid.SampledFrom([]int{1024, 2048, 4096, 65536}).Draw(t, "readCap")
	ns := rapid.IntRange(1, 6).Draw(t, "senders")
	sizes := []int{0, 1, 2, 7, 8, 9, 100, 1023, 1471, 1472, 1473, cs.ReadCap - 1, cs.ReadCap, cs.ReadCap / 2}
	var ok []int
	for _, n := range sizes {
		if n <= cs.ReadCap && n <= 65507 {
			ok = append(ok, n)
		}
	}
	if cs.ReadCap >= 65536 {
		ok = append(ok, 65507, 65506, 40000)
	}
	for i := 0; i < ns; i++ {
		nd := rapid.IntRange(1, 12).Draw(t, "datagrams")
		var ss []int
		for j := 0; j < nd; j++ {
			ss = append(ss, rapid.SampledFrom(ok).Draw(t, "size"))
		}
		cs.Senders = append(cs.Senders, ss)
	}
	nm := rapid.IntRange(1, 5).Draw(t, "modes")
	for i := 0; i < nm; i++ {
		cs.Modes = append(cs.Modes, evMode{
			Consume: rapid.SampledFrom([]string{"all", "part", "none", "next1"}).Draw(t, "consume"),
			Reply:   rapid.SampledFrom([]int{-1, -1, hdr, 100, 1400}).Draw(t, "reply"),
			SendTo:  rapid.IntRange(0, 2).Draw(t, "sendTo") == 0,
			To16:    rapid.Bool().Draw(t, "to16"),
			FailTo:  rapid.IntRange(0, 3).Draw(t, "failingSendTo") == 0,
			Async:   rapid.Bool().Draw(t, "async"),
		})
	}
	cs.Raw = rapid.IntRange(0, 2).Draw(t, "raw") == 0
	if fx.HasIPv6 {
		cs.Mixed = rapid.IntRange(0, 3).Draw(t, "mixedFamilies") == 0
	}
	cs.ScratchAddr = rapid.IntRange(0, 2).Draw(t, "scratchAddr") == 0
	return cs
}

func TestC08Datagrams(t *testing.T) {
	st := vstat.New("C08.datagrams")
	defer st.Flush()
	rapid.Check(t, func(t *rapid.T) {
		cs := drawCase(t)
		fails, infra, s := runCase(cs)
		if infra != "" {
			t.Fatalf("VERIF-INFRA %s\n%s", infra, cs)
		}
		for _, f := range fails {
			if strings.HasPrefix(f, "VERIF-INFRA") {
				t.Fatalf("%s\n%s", f, cs)
			}
		}
		st.Eval()
		n := 0
		for _, ss := range cs.Senders {
			n += len(ss)
		}
		st.LabelN("datagrams", int64(n))
		if s.partial {
			st.NonTrivial(vstat.Hash(cs.String()))
			st.Label("partial_consumption_followed_by_another_event_on_the_loop")
		}
		if cs.Net == "udp6" {
			st.Label("ipv6")
		}
		if cs.Mixed {
			st.Label("listeners_of_both_families")
		}
		if cs.ScratchAddr && !cs.Mixed {
			st.Label("sendto_address_object_reused")
		}
		if cs.Raw {
			st.Label("raw_zero_copy_replies")
			for _, ss := range cs.Senders {
				for _, sz := range ss {
					if sz == 0 {
						st.Label("empty_reply_written")
					}
				}
			}
		}
		if st.WantSample(s.partial) {
			st.Sample(s.partial, cs.String())
		}
		if len(fails) > 0 {
			t.Fatalf("%s\ncase: %s", strings.Join(fails, "\n"), cs)
		}
	})
}

func TestMain(m *testing.M) {
	code := m.Run()
	fx.Cleanup()
	os.Exit(code)
}
