package clix

// Package clix drives a gnet.Client through its control API (shared by the C07 and C19 checks).
//
// C19, the client's control API: Dial / DialContext / Enroll / EnrollContext deliver exactly
// one result per call - either a usable connection (and a nil error) or an error (and no
// connection) - while the client runs, while Client.Stop takes effect and after it has
// returned; after Stop every call reports an error and has no effect. A connection handed
// out with a nil error has seen exactly one OnOpen.

import (
	"fmt"
	"net"
	"reflect"
	"sync"
	"sync/atomic"
	"time"

	gnet "github.com/panjf2000/gnet/v2"
	"github.com/panjf2000/gnet/v2/internal/vshim"
	"github.com/panjf2000/gnet/v2/verifx/fx"
)

type cliConn struct {
	opens, closes int32
	busy          time.Duration // OnTraffic keeps the loop busy for this long
}

type cliHandler struct {
	gnet.BuiltinEventEngine
	unbound int32
}

func (h *cliHandler) OnOpen(c gnet.Conn) ([]byte, gnet.Action) {
	if st, _ := c.Context().(*cliConn); st != nil {
		atomic.AddInt32(&st.opens, 1)
	} else {
		atomic.AddInt32(&h.unbound, 1)
	}
	return nil, gnet.None
}

func (h *cliHandler) OnTraffic(c gnet.Conn) gnet.Action {
	_, _ = c.Discard(-1)
	if st, _ := c.Context().(*cliConn); st != nil && st.busy > 0 {
		time.Sleep(st.busy)
	}
	return gnet.None
}

func (h *cliHandler) OnClose(c gnet.Conn, _ error) gnet.Action {
	if st, _ := c.Context().(*cliConn); st != nil {
		atomic.AddInt32(&st.closes, 1)
	}
	return gnet.None
}

type Case struct {
	Loops   int
	ET      bool
	Before  []string   // calls while the client runs
	Racing  [][]string // calls of goroutines that run while Client.Stop is in progress
	After   []string   // calls after Client.Stop has returned
	BusyMs  int        // > 0: a handler keeps one loop busy for that long while Stop and the racing calls are issued
	StopGap int        // microseconds between starting the racing goroutines and Client.Stop
}

func (c Case) String() string {
	return fmt.Sprintf("client loops=%d ET=%v running=%v racing=%v stopGapUs=%d loopBusyMs=%d after=%v", c.Loops, c.ET, c.Before, c.Racing, c.StopGap, c.BusyMs, c.After)
}

var Kinds = []string{"dial-tcp", "dialctx-tcp", "enroll-tcp", "enrollctx-tcp", "dial-unix", "enroll-unix", "dial-udp", "dialctx-udp"}

func isNilConn(c gnet.Conn) bool {
	if c == nil {
		return true
	}
	v := reflect.ValueOf(c)
	return v.Kind() == reflect.Ptr && v.IsNil()
}

// Run executes one case. With fdTable set it also compares the process's descriptor table
// (sockets, epoll, eventfd) before the client was created and after Stop has returned and
// every racing call has delivered its result.
func Run(cs Case, fdTable bool) (fails []string, infra string, racedOK, racedErr int) {
	var before map[int]string
	if fdTable {
		before = fx.FdTable()
	}
	fails, infra, racedOK, racedErr = run(cs)
	if fdTable && infra == "" && len(fails) == 0 {
		if desc, _ := fx.Leaked(before, 3*time.Second); len(desc) > 0 {
			fails = append(fails, fmt.Sprintf("VERIF-KEY:fd-leak descriptors left open after Client.Stop returned and every Dial/Enroll delivered its result: %v", desc))
		}
	}
	return
}

func run(cs Case) (fails []string, infra string, racedOK, racedErr int) {
	var mu sync.Mutex
	failf := func(key, f string, a ...any) {
		mu.Lock()
		if len(fails) < 8 {
			fails = append(fails, fmt.Sprintf("VERIF-KEY:%s %s", key, fmt.Sprintf(f, a...)))
		}
		mu.Unlock()
	}
	// targets
	tl, err := net.Listen("tcp4", fx.Host("tcp4")+":0")
	if err != nil {
		return nil, err.Error(), 0, 0
	}
	defer tl.Close()
	upath := fmt.Sprintf("%s/c19cli-%d.sock", fx.TmpDir(), time.Now().UnixNano())
	ul, err := net.Listen("unix", upath)
	if err != nil {
		return nil, err.Error(), 0, 0
	}
	defer ul.Close()
	us, err := net.ListenUDP("udp4", &net.UDPAddr{IP: net.ParseIP(fx.Host("udp4"))})
	if err != nil {
		return nil, err.Error(), 0, 0
	}
	defer us.Close()
	var amu sync.Mutex
	var accepted []net.Conn
	var awg sync.WaitGroup
	for _, l := range []net.Listener{tl, ul} {
		awg.Add(1)
		go func(l net.Listener) {
			defer awg.Done()
			for {
				c, err := l.Accept()
				if err != nil {
					return
				}
				amu.Lock()
				accepted = append(accepted, c)
				amu.Unlock()
			}
		}(l)
	}
	defer func() {
		tl.Close()
		ul.Close()
		awg.Wait()
		amu.Lock()
		for _, c := range accepted {
			c.Close()
		}
		amu.Unlock()
	}()
	plan := &vshim.Plan{}
	vshim.Install(plan)
	defer vshim.Install(nil)
	h := &cliHandler{}
	lg := &fx.CaptureLogger{}
	cli, err := gnet.NewClient(h, gnet.WithNumEventLoop(cs.Loops), gnet.WithEdgeTriggeredIO(cs.ET), gnet.WithLogger(lg))
	if err != nil {
		return nil, "NewClient: " + err.Error(), 0, 0
	}
	if err := cli.Start(); err != nil {
		return nil, "Client.Start: " + err.Error(), 0, 0
	}
	var phase int32 // 0 running, 1 stop in progress, 2 stopped
	call := func(kind string) (ok bool) {
		st := &cliConn{}
		var gc gnet.Conn
		var err error
		p0 := atomic.LoadInt32(&phase)
		var own net.Conn // a connection of ours that stays ours when Enroll refuses it
		switch kind {
		case "dial-tcp":
			gc, err = cli.Dial("tcp4", tl.Addr().String())
			st = nil
		case "dialctx-tcp":
			gc, err = cli.DialContext("tcp4", tl.Addr().String(), st)
		case "dial-unix":
			gc, err = cli.DialContext("unix", upath, st)
		case "dial-udp":
			gc, err = cli.Dial("udp4", us.LocalAddr().String())
			st = nil
		case "dialctx-udp":
			gc, err = cli.DialContext("udp4", us.LocalAddr().String(), st)
		case "enroll-tcp", "enrollctx-tcp", "enroll-unix":
			netw, addr := "tcp4", tl.Addr().String()
			if kind == "enroll-unix" {
				netw, addr = "unix", upath
			}
			nc, derr := net.Dial(netw, addr)
			if derr != nil {
				failf("VERIF-INFRA", "dial target: %v", derr)
				return false
			}
			own = nc
			if kind == "enroll-tcp" {
				gc, err = cli.Enroll(nc)
				st = nil
			} else {
				gc, err = cli.EnrollContext(nc, st)
			}
		}
		p1 := atomic.LoadInt32(&phase)
		if own != nil {
			// Enroll works on a duplicate: the net.Conn stays the caller's in either outcome
			own.Close()
		}
		if isNilConn(gc) == (err == nil) {
			failf("ctl-client-result", "%s (issued %s) returned {Conn: %v, error: %v}: a call delivers either a connection or an error", kind, phaseName(p0), gc, err)
			return false
		}
		if err != nil {
			if p1 == 0 {
				failf("ctl-client-refused", "%s on a running client failed: %v", kind, err)
			}
			if st != nil {
				time.Sleep(time.Millisecond)
				if n := atomic.LoadInt32(&st.opens); n != 0 {
					failf("ctl-client-effect", "%s (issued %s) returned the error %v, yet OnOpen ran %d times for it", kind, phaseName(p0), err, n)
				}
			}
			return false
		}
		if p0 == 2 {
			failf("ctl-client-after-stop", "%s issued after Client.Stop had returned delivered a connection", kind)
			return true
		}
		if st != nil {
			if n := atomic.LoadInt32(&st.opens); n != 1 {
				failf("ctl-client-open", "%s (issued %s) handed out a connection that has seen %d OnOpen calls", kind, phaseName(p0), n)
			}
		}
		return true
	}
	for _, k := range cs.Before {
		call(k)
	}
	if cs.BusyMs > 0 {
		amu.Lock()
		n0 := len(accepted)
		amu.Unlock()
		bst := &cliConn{busy: time.Duration(cs.BusyMs) * time.Millisecond}
		if _, err := cli.DialContext("tcp4", tl.Addr().String(), bst); err != nil {
			failf("ctl-client-refused", "DialContext on a running client failed: %v", err)
		} else {
			var peer net.Conn
			for dl := time.Now().Add(5 * time.Second); peer == nil && time.Now().Before(dl); time.Sleep(200 * time.Microsecond) {
				amu.Lock()
				for _, c := range accepted[n0:] {
					if c.LocalAddr().Network() == "tcp" {
						peer = c
					}
				}
				amu.Unlock()
			}
			if peer != nil {
				_, _ = peer.Write([]byte{1}) // its OnTraffic parks the loop
				time.Sleep(2 * time.Millisecond)
			}
		}
	}
	// racing calls and the stop
	var wg sync.WaitGroup
	var okN, errN int32
	for _, calls := range cs.Racing {
		wg.Add(1)
		go func(calls []string) {
			defer wg.Done()
			for _, k := range calls {
				if call(k) {
					atomic.AddInt32(&okN, 1)
				} else {
					atomic.AddInt32(&errN, 1)
				}
			}
		}(calls)
	}
	time.Sleep(time.Duration(cs.StopGap) * time.Microsecond)
	atomic.StoreInt32(&phase, 1)
	stopRet := make(chan error, 1)
	go func() { stopRet <- cli.Stop() }()
	select {
	case err := <-stopRet:
		if err != nil {
			failf("ctl-client-stop", "Client.Stop returned %v", err)
		}
	case <-time.After(10 * time.Second):
		failf("ctl-client-stop", "Client.Stop did not return within 10s")
		return fails, "", 0, 0
	}
	atomic.StoreInt32(&phase, 2)
	done := make(chan struct{})
	go func() { wg.Wait(); close(done) }()
	select {
	case <-done:
	case <-time.After(10 * time.Second):
		failf("ctl-client-result", "a Dial/Enroll that raced Client.Stop delivered no result within 10s of Stop's return")
		return fails, "", 0, 0
	}
	for _, k := range cs.After {
		call(k)
	}
	if n := atomic.LoadInt32(&h.unbound); n != 0 {
		// Dial/Enroll without context: nothing to attribute, fine
		_ = n
	}
	for _, p := range lg.Panics() {
		failf("panic-logged", "%s", p)
	}
	if len(plan.NotOpenCloses) > 0 {
		failf("ctl-client-double-close", "the framework called close(2) on descriptor number(s) %v that were not open: closed twice (a number reused in between would have been somebody else's descriptor)", plan.NotOpenCloses)
	}
	return fails, "", int(okN), int(errN)
}

func phaseName(p int32) string {
	return [...]string{"while running", "while Client.Stop was in progress", "after Client.Stop had returned"}[p]
}

