// Package vstat collects what a generated check actually explored: number of
// evaluated cases, fingerprints of the non-trivial ones, a label histogram and a
// few rendered samples. One JSON line per Flush is appended to $VERIF_STATS; the
// driver (/verif/check) merges the lines of all shards into the evidence file.
package vstat

import (
	"encoding/json"
	"fmt"
	"hash/fnv"
	"os"
	"sort"
	"strconv"
	"sync"
)

const (
	maxFingerprints = 400000
	maxSamples      = 6
	maxSampleLen    = 1800
)

// Stats is safe for concurrent use.
type Stats struct {
	mu       sync.Mutex
	check    string
	evals    int64
	fps      map[uint64]struct{}
	fpDrop   int64
	labels   map[string]int64
	samples  []string
	ntSample int
	extra    map[string]any
}

// New creates a collector for one named check (a test function).
func New(check string) *Stats {
	return &Stats{check: check, fps: map[uint64]struct{}{}, labels: map[string]int64{}, extra: map[string]any{}}
}

// Eval counts one executed case.
func (s *Stats) Eval() { s.EvalN(1) }

// EvalN counts n executed cases.
func (s *Stats) EvalN(n int64) {
	s.mu.Lock()
	s.evals += n
	s.mu.Unlock()
}

// NonTrivial records the fingerprint of a case that was non-trivial by the
// check's stated rule.
func (s *Stats) NonTrivial(fp uint64) {
	s.mu.Lock()
	if len(s.fps) < maxFingerprints {
		s.fps[fp] = struct{}{}
	} else if _, ok := s.fps[fp]; !ok {
		s.fpDrop++
	}
	s.mu.Unlock()
}

// Label increments a histogram bucket.
func (s *Stats) Label(name string) { s.LabelN(name, 1) }

// LabelN adds n to a histogram bucket.
func (s *Stats) LabelN(name string, n int64) {
	s.mu.Lock()
	s.labels[name] += n
	s.mu.Unlock()
}

// Sample offers a rendered case; the first few (preferring non-trivial ones)
// are kept.
func (s *Stats) Sample(nontrivial bool, text string) {
	s.mu.Lock()
	defer s.mu.Unlock()
	if len(text) > maxSampleLen {
		text = text[:maxSampleLen] + "…"
	}
	if len(s.samples) < maxSamples {
		s.samples = append(s.samples, text)
		if nontrivial {
			s.ntSample++
		}
		return
	}
	// replace a trivial sample by a non-trivial one
	if nontrivial && s.ntSample < maxSamples {
		s.samples[s.ntSample] = text
		s.ntSample++
	}
}

// WantSample tells a harness whether rendering a sample is still useful.
func (s *Stats) WantSample(nontrivial bool) bool {
	s.mu.Lock()
	defer s.mu.Unlock()
	return len(s.samples) < maxSamples || (nontrivial && s.ntSample < maxSamples)
}

// Set stores an extra key in the evidence (e.g. "exhaustive": true).
func (s *Stats) Set(key string, v any) {
	s.mu.Lock()
	s.extra[key] = v
	s.mu.Unlock()
}

// Flush appends the collected numbers as one JSON line to $VERIF_STATS.
func (s *Stats) Flush() {
	s.mu.Lock()
	defer s.mu.Unlock()
	path := os.Getenv("VERIF_STATS")
	if path == "" {
		return
	}
	fps := make([]string, 0, len(s.fps))
	for fp := range s.fps {
		fps = append(fps, strconv.FormatUint(fp, 16))
	}
	sort.Strings(fps)
	rec := map[string]any{
		"check":        s.check,
		"evaluations":  s.evals,
		"fingerprints": fps,
		"fp_dropped":   s.fpDrop,
		"labels":       s.labels,
		"samples":      s.samples,
		"extra":        s.extra,
	}
	b, err := json.Marshal(rec)
	if err != nil {
		fmt.Fprintf(os.Stderr, "vstat: %v\n", err)
		return
	}
	f, err := os.OpenFile(path, os.O_APPEND|os.O_CREATE|os.O_WRONLY, 0o644)
	if err != nil {
		fmt.Fprintf(os.Stderr, "vstat: %v\n", err)
		return
	}
	defer f.Close()
	_, _ = f.Write(append(b, '\n'))
}

// Hash returns an FNV-64a fingerprint of the printed parts.
func Hash(parts ...any) uint64 {
	h := fnv.New64a()
	for _, p := range parts {
		switch v := p.(type) {
		case []byte:
			_, _ = h.Write(v)
		case string:
			_, _ = h.Write([]byte(v))
		default:
			_, _ = fmt.Fprint(h, v)
		}
		_, _ = h.Write([]byte{0xff})
	}
	return h.Sum64()
}

// Env helpers shared by the harnesses.

// Tier returns "quick" or "thorough".
func Tier() string {
	if os.Getenv("VERIF_TIER") == "thorough" {
		return "thorough"
	}
	return "quick"
}

// Thorough reports whether the thorough tier is running.
func Thorough() bool { return Tier() == "thorough" }

// Shard returns this process's shard index and the shard count.
func Shard() (k, n int) {
	k, _ = strconv.Atoi(os.Getenv("VERIF_SHARD"))
	n, _ = strconv.Atoi(os.Getenv("VERIF_NSHARDS"))
	if n <= 0 {
		n = 1
	}
	if k < 0 || k >= n {
		k = 0
	}
	return
}

// IntEnv reads an integer knob with a default.
func IntEnv(name string, def int) int {
	if v, err := strconv.Atoi(os.Getenv(name)); err == nil {
		return v
	}
	return def
}

// Known reports whether key is listed as a known finding for this run (the
// driver passes the keys of /verif/known_findings.txt in $VERIF_KNOWN). A
// harness that meets a listed finding records it with KnownFinding instead of
// failing, so that the search continues behind it.
func Known(key string) bool {
	for _, k := range splitComma(os.Getenv("VERIF_KNOWN")) {
		if k == key {
			return true
		}
	}
	return false
}

func splitComma(s string) []string {
	var out []string
	cur := ""
	for _, r := range s {
		if r == ',' {
			if cur != "" {
				out = append(out, cur)
			}
			cur = ""
			continue
		}
		cur += string(r)
	}
	if cur != "" {
		out = append(out, cur)
	}
	return out
}

// KnownFinding counts one occurrence of a listed finding.
func (s *Stats) KnownFinding(key, detail string) {
	s.mu.Lock()
	s.labels["known_finding:"+key]++
	if kf, _ := s.extra["known_findings"].(map[string]string); kf == nil {
		s.extra["known_findings"] = map[string]string{key: detail}
	} else if _, ok := kf[key]; !ok {
		kf[key] = detail
	}
	s.mu.Unlock()
}
