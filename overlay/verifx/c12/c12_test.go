// C12 — pooled memory is exclusively owned: no aliasing, no out-of-bounds.
package c12

import (
	"fmt"
	"runtime"
	"strings"
	"sync"
	"testing"
	"unsafe"

	"pgregory.net/rapid"

	"github.com/panjf2000/gnet/v2/pkg/buffer/ring"
	bsPool "github.com/panjf2000/gnet/v2/pkg/pool/byteslice"
	rbPool "github.com/panjf2000/gnet/v2/pkg/pool/ringbuffer"
	"github.com/panjf2000/gnet/v2/verifx/vstat"
)

// rng is a memory range [lo, hi).
type rng struct {
	lo, hi uintptr
	keep   []byte // keeps the memory alive so that the allocator cannot reuse the addresses
	tag    byte   // canary pattern of an outstanding range
	what   string
}

func rangeOf(b []byte) rng {
	b = b[:cap(b)]
	if len(b) == 0 {
		return rng{}
	}
	lo := uintptr(unsafe.Pointer(&b[0]))
	return rng{lo: lo, hi: lo + uintptr(len(b)), keep: b}
}

func (a rng) overlaps(b rng) bool { return a.lo < b.hi && b.lo < a.hi && a.lo != a.hi && b.lo != b.hi }
func (a rng) inside(b rng) bool   { return a.lo >= b.lo && a.hi <= b.hi }
func (a rng) String() string      { return fmt.Sprintf("[%#x,+%d) %s", a.lo, a.hi-a.lo, a.what) }

// ledger tracks who owns which memory.
type ledger struct {
	mu       sync.Mutex
	out      []*rng // handed out (by the pool or owned by the harness), canary-filled
	returned []*rng // given to the pool and not handed out again yet
	seen     map[uintptr]bool
	recycled int
	hist     []string
}

func (l *ledger) logf(format string, a ...any) {
	if len(l.hist) < 400 {
		l.hist = append(l.hist, fmt.Sprintf(format, a...))
	}
}

type failer interface {
	Fatalf(format string, args ...any)
}

func (l *ledger) fail(t failer, key, format string, a ...any) {
	t.Fatalf("VERIF-KEY:%s %s\nhistory: %s", key, fmt.Sprintf(format, a...), strings.Join(l.hist, "; "))
}

// acquire registers memory handed out by a pool (or allocated by the harness when fromPool is false).
func (l *ledger) acquire(t failer, b []byte, what string, fromPool bool) *rng {
	r := rangeOf(b)
	r.what = what
	if r.lo == r.hi {
		return nil
	}
	for _, o := range l.out {
		if r.overlaps(*o) {
			l.fail(t, "pool-alias", "%s %v overlaps memory that is still handed out: %v", what, r, *o)
		}
	}
	hit := -1
	for i, p := range l.returned {
		if r.overlaps(*p) {
			if !r.inside(*p) {
				l.fail(t, "pool-oob", "%s %v reaches beyond the slice that was returned to the pool: %v", what, r, *p)
			}
			if hit >= 0 {
				l.fail(t, "pool-alias", "%s %v overlaps two returned slices", what, r)
			}
			hit = i
		}
	}
	if hit >= 0 {
		l.returned = append(l.returned[:hit], l.returned[hit+1:]...)
		if fromPool {
			l.recycled++
		}
	}
	if l.seen[r.lo] && fromPool {
		l.recycled++
	}
	l.seen[r.lo] = true
	rr := &r
	l.out = append(l.out, rr)
	return rr
}

var tagCounter byte

func (r *rng) fill() {
	tagCounter += 37
	r.tag = tagCounter | 1
	for i := range r.keep {
		r.keep[i] = r.tag ^ byte(i)
	}
}

func (r *rng) intact() int {
	for i := range r.keep {
		if r.keep[i] != r.tag^byte(i) {
			return i
		}
	}
	return -1
}

func (l *ledger) checkCanaries(t failer) {
	for _, o := range l.out {
		if o.tag == 0 {
			continue
		}
		if i := o.intact(); i >= 0 {
			l.fail(t, "pool-canary", "byte %d of handed-out memory %v was overwritten", i, *o)
		}
	}
}

// release moves an outstanding range to the returned set (before the Put).
func (l *ledger) release(r *rng) {
	for i, o := range l.out {
		if o == r {
			l.out = append(l.out[:i], l.out[i+1:]...)
			break
		}
	}
	r.tag = 0
	l.returned = append(l.returned, r)
}

func (l *ledger) drop(r *rng) {
	for i, o := range l.out {
		if o == r {
			l.out = append(l.out[:i], l.out[i+1:]...)
			return
		}
	}
}

var sizeBounds = func() []int {
	var b []int
	for k := 0; k <= 20; k++ {
		b = append(b, 1<<k)
	}
	return b
}()

func drawSize(t *rapid.T, label string, max int) int {
	switch rapid.IntRange(0, 9).Draw(t, label+"#kind") {
	case 0, 1, 2, 3:
		k := rapid.IntRange(0, 20).Draw(t, label+"#k")
		d := rapid.IntRange(-2, 2).Draw(t, label+"#d")
		v := (1 << k) + d
		if v < 0 {
			v = 0
		}
		if v > max {
			v = max
		}
		return v
	case 4:
		return rapid.IntRange(-2, 0).Draw(t, label)
	case 5, 6, 7:
		return rapid.IntRange(0, 5000).Draw(t, label)
	default:
		return rapid.IntRange(0, max).Draw(t, label)
	}
}

type getter interface {
	Get(size int) []byte
	Put(buf []byte)
}

type globalPool struct{}

func (globalPool) Get(n int) []byte { return bsPool.Get(n) }
func (globalPool) Put(b []byte)     { bsPool.Put(b) }

// ---- (a) byte-slice pool state machine ---------------------------------------

type held struct {
	b []byte
	r *rng
}

func bytesliceMachine(t *rapid.T, st *vstat.Stats, p getter, maxSize int) {
	l := &ledger{seen: map[uintptr]bool{}}
	var mine []held // slices handed out by the pool and still owned by the harness
	arena := make([]byte, 1<<15)
	arenaOff := 0
	l.acquire(t, arena, "harness arena", false).fill()
	defer func() {
		st.Eval()
		nt := l.recycled > 0
		if nt {
			st.NonTrivial(vstat.Hash(strings.Join(l.hist, ";")))
			st.Label("served_from_recycled_memory")
		} else {
			st.Label("fresh_only")
		}
		if st.WantSample(nt) {
			st.Sample(nt, strings.Join(l.hist, "; "))
		}
	}()
	pick := func(t *rapid.T) int { return rapid.IntRange(0, len(mine)-1).Draw(t, "which") }
	t.Repeat(map[string]func(*rapid.T){
		"": func(t *rapid.T) { l.checkCanaries(t) },
		"Get": func(t *rapid.T) {
			n := drawSize(t, "size", maxSize)
			l.logf("Get(%d)", n)
			b := p.Get(n)
			if n <= 0 {
				if len(b) != 0 {
					l.fail(t, "pool-get-len", "Get(%d) returned %d bytes", n, len(b))
				}
				return
			}
			if len(b) != n || cap(b) < n {
				l.fail(t, "pool-get-len", "Get(%d) returned len %d cap %d", n, len(b), cap(b))
			}
			r := l.acquire(t, b, fmt.Sprintf("Get(%d)", n), true)
			r.fill()
			mine = append(mine, held{b, r})
		},
		"PutExact": func(t *rapid.T) {
			if len(mine) == 0 {
				t.Skip("nothing held")
			}
			i := pick(t)
			h := mine[i]
			mine = append(mine[:i], mine[i+1:]...)
			l.logf("Put(len %d cap %d)", len(h.b), cap(h.b))
			l.release(h.r)
			p.Put(h.b)
		},
		"PutTail": func(t *rapid.T) {
			// give back b[k:], keep b[:k] (a re-sliced tail whose head stays owned)
			if len(mine) == 0 {
				t.Skip("nothing held")
			}
			i := pick(t)
			h := mine[i]
			if cap(h.b) < 2 {
				t.Skip("too small to split")
			}
			k := rapid.IntRange(1, cap(h.b)-1).Draw(t, "k")
			mine = append(mine[:i], mine[i+1:]...)
			full := h.b[:cap(h.b)]
			head, tail := full[:k:k], full[k:]
			l.logf("Put(tail [%d:] of cap %d)", k, cap(full))
			l.drop(h.r)
			hr := l.acquire(t, head, fmt.Sprintf("kept head [:%d]", k), false)
			hr.fill()
			tr := rangeOf(tail)
			tr.what = "returned tail"
			l.returned = append(l.returned, &tr)
			mine = append(mine, held{head, hr})
			p.Put(tail)
		},
		"PutForeign": func(t *rapid.T) {
			// a slice that never came from the pool: odd capacity, carved out of the
			// harness arena so that the memory right behind it is canary-filled
			c := rapid.OneOf(rapid.IntRange(1, 5000), rapid.Custom(func(t *rapid.T) int {
				return (1 << rapid.IntRange(1, 12).Draw(t, "k")) + rapid.IntRange(-3, 3).Draw(t, "d")
			})).Draw(t, "cap")
			if c < 1 {
				c = 1
			}
			if arenaOff+c+64 > len(arena) {
				t.Skip("arena used up")
			}
			n := rapid.IntRange(0, c).Draw(t, "len")
			// split the arena canary: [arenaOff, arenaOff+c) goes to the pool
			s := arena[arenaOff : arenaOff+n : arenaOff+c]
			l.logf("Put(foreign len %d cap %d)", n, c)
			splitArena(l, t, arena, arenaOff, c)
			arenaOff += c + rapid.IntRange(0, 9).Draw(t, "gap")
			p.Put(s)
		},
		"PutEmpty": func(t *rapid.T) {
			l.logf("Put(nil/zero-cap)")
			p.Put(nil)
			p.Put([]byte{})
			p.Put(make([]byte, 0))
		},
		"GC": func(t *rapid.T) {
			l.logf("GC")
			runtime.GC()
		},
		"Scribble": func(t *rapid.T) {
			// write over the whole capacity of something we own, then re-fill
			if len(mine) == 0 {
				t.Skip("nothing held")
			}
			mine[pick(t)].r.fill()
		},
	})
}

// splitArena re-registers the arena canary around a carved-out piece.
func splitArena(l *ledger, t failer, arena []byte, off, c int) {
	// remove every arena piece that contains the carved range and add the remainders
	piece := rangeOf(arena[off : off+c : off+c])
	piece.what = "foreign slice"
	var keep []*rng
	for _, o := range l.out {
		if o.overlaps(piece) {
			full := o.keep
			base := o.lo
			a := int(piece.lo - base)
			if a > 0 {
				left := rangeOf(full[:a:a])
				left.what, left.tag = o.what, o.tag
				// canary pattern is index-relative: re-fill
				lp := &left
				lp.fill()
				keep = append(keep, lp)
			}
			if b := int(piece.hi - base); b < len(full) {
				right := rangeOf(full[b:len(full):len(full)])
				right.what = o.what
				rp := &right
				rp.fill()
				keep = append(keep, rp)
			}
			continue
		}
		keep = append(keep, o)
	}
	l.out = keep
	l.returned = append(l.returned, &piece)
}

func TestC12ByteSliceFresh(t *testing.T) {
	st := vstat.New("C12.byteslice_fresh_pool")
	defer st.Flush()
	rapid.Check(t, func(t *rapid.T) {
		max := 1 << 14
		if rapid.IntRange(0, 9).Draw(t, "big") == 0 {
			max = 1 << 20
		}
		bytesliceMachine(t, st, new(bsPool.Pool), max)
	})
}

func TestC12ByteSliceGlobal(t *testing.T) {
	st := vstat.New("C12.byteslice_global_pool")
	defer st.Flush()
	rapid.Check(t, func(t *rapid.T) {
		// two collections empty sync.Pool's primary and victim caches, so nothing
		// returned by an earlier case can come back
		runtime.GC()
		runtime.GC()
		bytesliceMachine(t, st, globalPool{}, 1<<13)
	})
}

// ---- (b) concurrent Get/Put --------------------------------------------------

func TestC12Concurrent(t *testing.T) {
	st := vstat.New("C12.concurrent")
	defer st.Flush()
	rapid.Check(t, func(t *rapid.T) {
		workers := rapid.IntRange(2, 16).Draw(t, "workers")
		rounds := rapid.IntRange(20, 200).Draw(t, "rounds")
		sizes := rapid.SliceOfN(rapid.Custom(func(t *rapid.T) int { return drawSize(t, "size", 1<<14) }), 4, 12).Draw(t, "sizes")
		holdN := rapid.IntRange(1, 4).Draw(t, "hold")
		gcEvery := rapid.SampledFrom([]int{0, 0, 7, 31}).Draw(t, "gcEvery")
		p := new(bsPool.Pool)
		l := &ledger{seen: map[uintptr]bool{}}
		var wg sync.WaitGroup
		errs := make(chan string, workers)
		for w := 0; w < workers; w++ {
			wg.Add(1)
			go func(w int) {
				defer wg.Done()
				f := &collectFail{}
				var mine []held
				for i := 0; i < rounds && f.msg == ""; i++ {
					n := sizes[(i*7+w*3)%len(sizes)]
					b := p.Get(n)
					if n > 0 {
						if len(b) != n || cap(b) < n {
							f.Fatalf("VERIF-KEY:pool-get-len Get(%d) returned len %d cap %d", n, len(b), cap(b))
							break
						}
						l.mu.Lock()
						r := l.acquire(f, b, fmt.Sprintf("worker %d Get(%d)", w, n), true)
						l.mu.Unlock()
						if f.msg != "" {
							break
						}
						// private canary (index- and worker-dependent), no shared counter
						r.tag = byte(w*16+i) | 1
						for j := range r.keep {
							r.keep[j] = r.tag ^ byte(j)
						}
						mine = append(mine, held{b, r})
					}
					if gcEvery > 0 && w == 0 && i%gcEvery == 0 {
						runtime.GC()
					}
					for len(mine) > holdN || (i == rounds-1 && len(mine) > 0) {
						h := mine[0]
						mine = mine[1:]
						if j := h.r.intact(); j >= 0 {
							f.Fatalf("VERIF-KEY:pool-canary worker %d: byte %d of its slice %v was overwritten by someone else", w, j, *h.r)
							break
						}
						l.mu.Lock()
						l.release(h.r)
						l.mu.Unlock()
						p.Put(h.b)
					}
				}
				if f.msg != "" {
					errs <- f.msg
				}
			}(w)
		}
		wg.Wait()
		st.Eval()
		if l.recycled > 0 {
			st.NonTrivial(vstat.Hash(workers, rounds, sizes, holdN, gcEvery))
			st.Label("served_from_recycled_memory")
		}
		if st.WantSample(l.recycled > 0) {
			st.Sample(l.recycled > 0, fmt.Sprintf("%d workers x %d rounds, sizes %v, hold %d, gcEvery %d: %d gets served from recycled memory", workers, rounds, sizes, holdN, gcEvery, l.recycled))
		}
		select {
		case msg := <-errs:
			t.Fatalf("%s", msg)
		default:
		}
	})
}

type collectFail struct{ msg string }

func (c *collectFail) Fatalf(format string, a ...any) {
	if c.msg == "" {
		c.msg = fmt.Sprintf(format, a...)
	}
}

// ---- (c) ring-buffer pool ------------------------------------------------------

// storage returns the memory range backing a ring buffer (it must hold >= 1 byte).
func storage(rb *ring.Buffer) rng {
	head, _ := rb.Peek(1)
	if len(head) == 0 || rb.Cap() == 0 {
		return rng{}
	}
	// after Reset the read cursor is 0, so head starts the storage; in general
	// find the base through the full slice capacity
	full := head[:1:cap(head)]
	lo := uintptr(unsafe.Pointer(&full[0]))
	// head begins at offset r; cap(head) = size - r, hence base = lo - (size - cap(head))
	base := lo - uintptr(rb.Cap()-cap(head))
	return rng{lo: base, hi: base + uintptr(rb.Cap())}
}

func TestC12RingPool(t *testing.T) {
	st := vstat.New("C12.ring_pool")
	defer st.Flush()
	rapid.Check(t, func(t *rapid.T) {
		runtime.GC()
		runtime.GC()
		// the global pool, as the connections use it, or a pool of its own (uncalibrated at first)
		pool, putRing := rbPool.Get, rbPool.Put
		fresh := rapid.Bool().Draw(t, "ownPool")
		if fresh {
			own := &rbPool.Pool{}
			pool, putRing = own.Get, own.Put
		}
		calibrations := 0
		type heldRing struct {
			rb      *ring.Buffer
			content []byte
		}
		var rings []*heldRing
		var slices [][]byte // byte slices from the global byte-slice pool, canary = 0xC3
		var hist []string
		recycled := false
		seen := map[*ring.Buffer]bool{}
		fail := func(key, format string, a ...any) {
			t.Fatalf("VERIF-KEY:%s %s\nhistory: %s", key, fmt.Sprintf(format, a...), strings.Join(hist, "; "))
		}
		check := func() {
			var rs []rng
			for i, h := range rings {
				got := h.rb.Bytes()
				if string(got) != string(h.content) {
					fail("ringpool-content", "ring %d no longer holds what its owner wrote (%d vs %d bytes)", i, len(got), len(h.content))
				}
				if len(h.content) > 0 {
					r := storage(h.rb)
					r.what = fmt.Sprintf("ring %d", i)
					rs = append(rs, r)
				}
			}
			for i, b := range slices {
				for j := range b[:cap(b)] {
					if b[:cap(b)][j] != 0xC3 {
						fail("pool-canary", "byte %d of byte slice %d (cap %d) was overwritten", j, i, cap(b))
					}
				}
				r := rangeOf(b)
				r.what = fmt.Sprintf("byte slice %d", i)
				rs = append(rs, r)
			}
			for i := range rs {
				for j := i + 1; j < len(rs); j++ {
					if rs[i].overlaps(rs[j]) {
						fail("pool-alias", "%v and %v share memory", rs[i], rs[j])
					}
				}
			}
		}
		defer func() {
			st.Eval()
			if recycled {
				st.NonTrivial(vstat.Hash(strings.Join(hist, ";")))
				st.Label("ring_reused")
			}
			if calibrations > 0 {
				st.Label("pool_calibrated_during_the_case")
			}
			if fresh {
				st.Label("own_pool")
			}
			if st.WantSample(recycled) {
				st.Sample(recycled, strings.Join(hist, "; "))
			}
			for _, h := range rings {
				putRing(h.rb)
			}
			for _, b := range slices {
				bsPool.Put(b)
			}
		}()
		var fillCounter byte
		t.Repeat(map[string]func(*rapid.T){
			"": func(t *rapid.T) { check() },
			"GetRing": func(t *rapid.T) {
				if len(rings) >= 6 {
					t.Skip("enough rings")
				}
				rb := pool()
				hist = append(hist, "ring.Get")
				if !rb.IsEmpty() || rb.Buffered() != 0 {
					fail("ringpool-notempty", "a ring buffer from the pool holds %d bytes", rb.Buffered())
				}
				for _, h := range rings {
					if h.rb == rb {
						fail("ringpool-shared", "the pool handed out a ring buffer that is still held")
					}
				}
				if seen[rb] {
					recycled = true
				}
				seen[rb] = true
				rings = append(rings, &heldRing{rb: rb})
			},
			"WriteRing": func(t *rapid.T) {
				if len(rings) == 0 {
					t.Skip("no ring")
				}
				h := rings[rapid.IntRange(0, len(rings)-1).Draw(t, "which")]
				n := rapid.SampledFrom([]int{1, 7, 500, 1024, 1025, 3000, 4096, 5000}).Draw(t, "n")
				fillCounter++
				data := make([]byte, n)
				for i := range data {
					data[i] = fillCounter ^ byte(i*3)
				}
				hist = append(hist, fmt.Sprintf("ring.Write(%d)", n))
				_, _ = h.rb.Write(data)
				h.content = append(h.content, data...)
			},
			"ReadRing": func(t *rapid.T) {
				if len(rings) == 0 {
					t.Skip("no ring")
				}
				h := rings[rapid.IntRange(0, len(rings)-1).Draw(t, "which")]
				n := rapid.IntRange(0, 2000).Draw(t, "n")
				if n > len(h.content) {
					n = len(h.content)
				}
				hist = append(hist, fmt.Sprintf("ring.Discard(%d)", n))
				_, _ = h.rb.Discard(n)
				h.content = h.content[n:]
			},
			"PutRing": func(t *rapid.T) {
				if len(rings) == 0 {
					t.Skip("no ring")
				}
				i := rapid.IntRange(0, len(rings)-1).Draw(t, "which")
				hist = append(hist, "ring.Put")
				putRing(rings[i].rb)
				rings = append(rings[:i], rings[i+1:]...)
			},
			"Calibrate": func(t *rapid.T) {
				// the pool re-calibrates itself after 42000 returns of one size step: a reachable state of
				// any long-running process, with its own branch in Put
				if calibrations >= 2 {
					t.Skip("calibrated twice")
				}
				calibrations++
				n := rapid.SampledFrom([]int{0, 1024, 4096}).Draw(t, "ringSize")
				hist = append(hist, fmt.Sprintf("42001 x Put(ring of size %d)", n))
				for i := 0; i < 42001; i++ {
					rb := pool()
					if n > 0 && rb.Cap() == 0 {
						_, _ = rb.Write(make([]byte, n))
						_, _ = rb.Discard(n)
					}
					if !rb.IsEmpty() {
						fail("ringpool-notempty", "a ring buffer from the pool holds %d bytes", rb.Buffered())
					}
					putRing(rb)
				}
			},
			"GetSlice": func(t *rapid.T) {
				if len(slices) >= 8 {
					t.Skip("enough slices")
				}
				n := rapid.SampledFrom([]int{1, 100, 512, 1024, 2048, 4096, 5000, 8192}).Draw(t, "n")
				b := bsPool.Get(n)
				hist = append(hist, fmt.Sprintf("bs.Get(%d)", n))
				if len(b) != n || cap(b) < n {
					fail("pool-get-len", "Get(%d) returned len %d cap %d", n, len(b), cap(b))
				}
				for j := range b[:cap(b)] {
					b[:cap(b)][j] = 0xC3
				}
				slices = append(slices, b)
			},
			"PutSlice": func(t *rapid.T) {
				if len(slices) == 0 {
					t.Skip("no slice")
				}
				i := rapid.IntRange(0, len(slices)-1).Draw(t, "which")
				hist = append(hist, fmt.Sprintf("bs.Put(cap %d)", cap(slices[i])))
				bsPool.Put(slices[i])
				slices = append(slices[:i], slices[i+1:]...)
			},
		})
	})
}
