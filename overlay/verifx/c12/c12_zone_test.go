package c12

// pkg/socket builds the decimal zone of an IPv6 address whose scope id is no interface
// index in a byte slice taken from the pool, and hands the result out as a string. That
// memory belongs to the address from then on: nothing the pool gives out later may
// overlap it.

import (
	"fmt"
	"net"
	"testing"
	"unsafe"

	"golang.org/x/sys/unix"
	"pgregory.net/rapid"

	bsPool "github.com/panjf2000/gnet/v2/pkg/pool/byteslice"
	"github.com/panjf2000/gnet/v2/pkg/socket"
	"github.com/panjf2000/gnet/v2/verifx/vstat"
)

func TestC12ZoneStringsAndThePool(t *testing.T) {
	st := vstat.New("C12.zone_strings")
	defer st.Flush()
	rapid.Check(t, func(t *rapid.T) {
		type held struct {
			zone, want string
		}
		var zones []held
		var slices [][]byte
		n := rapid.IntRange(1, 12).Draw(t, "steps")
		for i := 0; i < n; i++ {
			switch rapid.IntRange(0, 2).Draw(t, "op") {
			case 0:
				// a scope id that is no interface index: the zone is its decimal form
				id := uint32(rapid.SampledFrom([]int{9999, 10000, 65535, 65536, 987654, 0xFFFFFE, 4242, 100000}).Draw(t, "scope"))
				sa := &unix.SockaddrInet6{Port: 1, ZoneId: id}
				sa.Addr[0], sa.Addr[1], sa.Addr[15] = 0xfe, 0x80, 1
				var zone string
				if rapid.Bool().Draw(t, "udp") {
					zone = socket.SockaddrToUDPAddr(sa).(*net.UDPAddr).Zone
				} else {
					zone = socket.SockaddrToTCPOrUnixAddr(sa).(*net.TCPAddr).Zone
				}
				if zone != fmt.Sprint(id) {
					t.Fatalf("VERIF-KEY:pool-zone scope id %d came back as zone %q", id, zone)
				}
				zones = append(zones, held{zone, fmt.Sprint(id)})
			case 1:
				b := bsPool.Get(rapid.SampledFrom([]int{1, 7, 16, 17, 24, 32, 33, 64}).Draw(t, "size"))
				full := b[:cap(b)]
				for j := range full {
					full[j] = 'X'
				}
				slices = append(slices, b)
			default:
				if len(slices) > 0 {
					bsPool.Put(slices[0])
					slices = slices[1:]
				}
			}
			for _, z := range zones {
				if z.zone != z.want {
					t.Fatalf("VERIF-KEY:pool-zone-overwritten the zone string %q of an address converted earlier now reads %q: its memory was handed out by the pool again", z.want, z.zone)
				}
				zp := uintptr(unsafe.Pointer(unsafe.StringData(z.zone)))
				for _, b := range slices {
					if cap(b) == 0 {
						continue
					}
					lo := uintptr(unsafe.Pointer(&b[:1][0]))
					if zp < lo+uintptr(cap(b)) && lo < zp+uintptr(len(z.zone)) {
						t.Fatalf("VERIF-KEY:pool-alias the zone string %q of an address and a pool slice (cap %d) share memory", z.want, cap(b))
					}
				}
			}
		}
		st.Eval()
		if len(zones) > 0 && len(slices) > 0 {
			st.NonTrivial(vstat.Hash(fmt.Sprint(zones), len(slices)))
			st.Label("zone_strings_held_while_the_pool_hands_out_slices")
		}
		for _, b := range slices {
			bsPool.Put(b)
		}
	})
}
