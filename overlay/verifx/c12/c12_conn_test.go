package c12

// The pools as a running engine uses them: a handler peeks, discards and reads
// its inbound data in generated patterns (which makes conn.Peek assemble copies
// in pool slices and conn.Discard give them back) while the application holds
// pool slices of the same size classes. Nobody's bytes may change through
// somebody else: peeked bytes stay what the peer sent until the next Discard,
// the application's slices keep their canaries and never share memory with
// each other or with what Peek handed out.

import (
	"bytes"
	"errors"
	"fmt"
	"io"
	"os"
	"strings"
	"sync"
	"sync/atomic"
	"testing"
	"time"

	"pgregory.net/rapid"

	gnet "github.com/panjf2000/gnet/v2"
	bsPool "github.com/panjf2000/gnet/v2/pkg/pool/byteslice"
	"github.com/panjf2000/gnet/v2/verifx/fx"
	"github.com/panjf2000/gnet/v2/verifx/vio"
	"github.com/panjf2000/gnet/v2/verifx/vstat"
)

type connOp struct {
	Kind string // peek, discard, next, read, get, put
	Num  int    // numerator of the fraction of what is available (peek/discard/next/read), or a size (get)
	Den  int
	Add  int
}

func (o connOp) String() string {
	switch o.Kind {
	case "get":
		return fmt.Sprintf("get(%d)", o.Num)
	case "put":
		return "put"
	}
	return fmt.Sprintf("%s(%d/%d%+d)", o.Kind, o.Num, o.Den, o.Add)
}

type peeked struct {
	got  []byte
	want []byte
	what string
}

type connState struct {
	id                  int
	key                 uint64
	stream              []byte
	ops                 []connOp
	next                int // next op
	perCall             int
	consumed            int
	offered             int64
	mu                  sync.Mutex
	fails               []string
	hist                []string
	held                [][]byte
	peeks               []peeked
	nexts               []peeked // what Next returned during this callback ("must not be used in a new goroutine": usable in this one)
	assembled, recycled int
	seen                map[*byte]bool
	closed              chan struct{}
}

func (c *connState) failf(key, f string, a ...any) {
	c.mu.Lock()
	if len(c.fails) < 4 {
		h := c.hist
		if len(h) > 60 {
			h = h[len(h)-60:]
		}
		c.fails = append(c.fails, fmt.Sprintf("VERIF-KEY:%s conn%d: %s\n  handler history (tail): %s", key, c.id, fmt.Sprintf(f, a...), strings.Join(h, "; ")))
	}
	c.mu.Unlock()
}

func (c *connState) OnOpen(gnet.Conn) ([]byte, gnet.Action) { return nil, gnet.None }

func (c *connState) OnClose(gnet.Conn, error) gnet.Action {
	close(c.closed)
	return gnet.None
}

const appCanary = 0xC3

func (c *connState) verify(after string) {
	for i, p := range c.peeks {
		if !bytes.Equal(p.got, p.want) {
			c.failf("conn-peek-changed", "after %s the bytes returned by %s (%d bytes, no Discard since) are no longer what the peer sent (first difference at %d)", after, p.what, len(p.want), firstDiff(p.got, p.want))
			c.peeks = append(c.peeks[:i], c.peeks[i+1:]...)
			break
		}
	}
	for i, p := range c.nexts {
		if !bytes.Equal(p.got, p.want) {
			c.failf("conn-next-changed", "after %s the bytes returned by %s earlier in this callback (%d bytes) are no longer what the peer sent (first difference at %d)", after, p.what, len(p.want), firstDiff(p.got, p.want))
			c.nexts = append(c.nexts[:i], c.nexts[i+1:]...)
			break
		}
	}
	var rs []rng
	for i, b := range c.held {
		full := b[:cap(b)]
		for j := range full {
			if full[j] != appCanary {
				c.failf("pool-canary", "after %s byte %d of the application's pool slice %d (cap %d) was overwritten", after, j, i, cap(b))
				full[j] = appCanary
				break
			}
		}
		r := rangeOf(b)
		r.what = fmt.Sprintf("application slice %d (cap %d)", i, cap(b))
		rs = append(rs, r)
	}
	for _, p := range append(append([]peeked(nil), c.peeks...), c.nexts...) {
		if len(p.got) > 0 {
			r := rangeOf(p.got[:len(p.got):len(p.got)])
			r.what = "bytes returned by " + p.what
			rs = append(rs, r)
		}
	}
	for i := range rs {
		for j := i + 1; j < len(rs); j++ {
			if rs[i].overlaps(rs[j]) && !(strings.HasPrefix(rs[i].what, "bytes") && strings.HasPrefix(rs[j].what, "bytes")) {
				c.failf("pool-alias", "after %s %v and %v share memory", after, rs[i], rs[j])
				return
			}
		}
	}
}

func firstDiff(a, b []byte) int {
	for i := range a {
		if i >= len(b) || a[i] != b[i] {
			return i
		}
	}
	return len(a)
}

func (c *connState) size(o connOp, avail int) int {
	n := avail*o.Num/o.Den + o.Add
	if n < 0 {
		n = 0
	}
	return n
}

func (c *connState) OnTraffic(gc gnet.Conn) gnet.Action {
	avail := gc.InboundBuffered()
	if int64(c.consumed+avail) > atomic.LoadInt64(&c.offered) {
		atomic.StoreInt64(&c.offered, int64(c.consumed+avail))
	}
	if c.consumed+avail > len(c.stream) {
		c.failf("conn-phantom", "%d bytes consumed + %d buffered exceed the %d bytes the peer sent", c.consumed, avail, len(c.stream))
		return gnet.Close
	}
	c.hist = append(c.hist, fmt.Sprintf("OnTraffic[%d buffered]", avail))
	c.peeks, c.nexts = nil, nil // a previous callback's slices ended with it
	for k := 0; k < c.perCall; k++ {
		o := c.ops[c.next%len(c.ops)]
		c.next++
		avail = gc.InboundBuffered()
		switch o.Kind {
		case "peek":
			n := c.size(o, avail)
			b, err := gc.Peek(n)
			c.hist = append(c.hist, fmt.Sprintf("Peek(%d of %d)", n, avail))
			switch {
			case n > avail:
				if !errors.Is(err, io.ErrShortBuffer) {
					c.failf("conn-peek", "Peek(%d) with %d available returned %d bytes, err %v", n, avail, len(b), err)
				}
			default:
				want := n
				if n == 0 {
					want = avail
				}
				exp := c.stream[c.consumed : c.consumed+want]
				if err != nil || !bytes.Equal(b, exp) {
					c.failf("conn-peek", "Peek(%d) with %d available: err %v, %d bytes, first difference from the stream at %d", n, avail, err, len(b), firstDiff(b, exp))
				} else {
					c.peeks = append(c.peeks, peeked{b, exp, fmt.Sprintf("Peek(%d)", n)})
				}
			}
		case "discard":
			n := c.size(o, avail)
			if n > avail {
				n = avail
			}
			d, err := gc.Discard(n)
			c.hist = append(c.hist, fmt.Sprintf("Discard(%d of %d)", n, avail))
			want := n
			if n == 0 {
				want = avail // Discard(0) drops everything
			}
			if err != nil || d != want {
				c.failf("conn-discard", "Discard(%d) with %d available returned (%d, %v)", n, avail, d, err)
			}
			c.consumed += d
			c.peeks = nil
		case "next":
			n := c.size(o, avail)
			if n > avail {
				n = avail
			}
			if n == 0 {
				continue
			}
			c.peeks = nil
			b, err := gc.Next(n)
			c.hist = append(c.hist, fmt.Sprintf("Next(%d of %d)", n, avail))
			exp := c.stream[c.consumed : c.consumed+n]
			if err != nil || !bytes.Equal(b, exp) {
				c.failf("conn-next", "Next(%d) with %d available: err %v, %d bytes, first difference from the stream at %d", n, avail, err, len(b), firstDiff(b, exp))
			} else {
				c.nexts = append(c.nexts, peeked{b, exp, fmt.Sprintf("Next(%d)", n)})
			}
			c.consumed += n
		case "read":
			n := c.size(o, avail)
			if n > avail {
				n = avail
			}
			if n == 0 {
				continue
			}
			c.peeks = nil
			p := make([]byte, n)
			r, err := gc.Read(p)
			c.hist = append(c.hist, fmt.Sprintf("Read(%d of %d)", n, avail))
			exp := c.stream[c.consumed : c.consumed+r]
			if err != nil || r == 0 || !bytes.Equal(p[:r], exp) {
				c.failf("conn-read", "Read(%d bytes) with %d available returned (%d, %v), first difference from the stream at %d", n, avail, r, err, firstDiff(p[:r], exp))
			}
			c.consumed += r
		case "writeto":
			// drains everything that is buffered into a writer (the inbound ring goes back to its pool when empty)
			if avail == 0 {
				continue
			}
			c.peeks = nil
			var sink bytes.Buffer
			w, err := gc.WriteTo(&sink)
			c.hist = append(c.hist, fmt.Sprintf("WriteTo(all %d)", avail))
			exp := c.stream[c.consumed : c.consumed+avail]
			if err != nil || int(w) != avail || !bytes.Equal(sink.Bytes(), exp) {
				c.failf("conn-writeto", "WriteTo with %d available returned (%d, %v), first difference from the stream at %d", avail, w, err, firstDiff(sink.Bytes(), exp))
			}
			c.consumed += int(w)
		case "get":
			if len(c.held) >= 6 {
				bsPool.Put(c.held[0])
				c.held = c.held[1:]
			}
			b := bsPool.Get(o.Num)
			c.hist = append(c.hist, fmt.Sprintf("app Get(%d)", o.Num))
			if len(b) != o.Num || cap(b) < o.Num {
				c.failf("pool-get-len", "Get(%d) returned len %d cap %d", o.Num, len(b), cap(b))
				continue
			}
			full := b[:cap(b)]
			if cap(b) > 0 {
				if c.seen[&full[0]] {
					c.recycled++
				}
				c.seen[&full[0]] = true
			}
			for j := range full {
				full[j] = appCanary
			}
			c.held = append(c.held, b)
		case "put":
			if len(c.held) > 0 {
				c.hist = append(c.hist, fmt.Sprintf("app Put(cap %d)", cap(c.held[0])))
				bsPool.Put(c.held[0])
				c.held = c.held[1:]
			}
		}
		c.verify(c.hist[len(c.hist)-1])
	}
	return gnet.None
}

type connCase struct {
	Cfg   fx.Cfg
	Conns []connSpec
}

type connSpec struct {
	Total   int
	Chunks  []int // the peer writes these sizes cyclically, pausing in between
	PauseUs int
	Ops     []connOp
	PerCall int
}

func (c connCase) String() string {
	var b strings.Builder
	fmt.Fprintf(&b, "cfg: %s\n", c.Cfg)
	for i, s := range c.Conns {
		fmt.Fprintf(&b, " conn%d: %d bytes in writes of %v (pause %dus); %d ops per OnTraffic from %v\n", i, s.Total, s.Chunks, s.PauseUs, s.PerCall, s.Ops)
	}
	return b.String()
}

func drawConnCase(t *rapid.T) connCase {
	var cs connCase
	cs.Cfg = fx.DrawCfg(t, fx.DrawOpt{MaxLoops: 2})
	cs.Cfg.RcvBuf = 0
	cs.Cfg.Ticker = false
	nc := rapid.IntRange(1, 3).Draw(t, "conns")
	for i := 0; i < nc; i++ {
		var s connSpec
		s.Total = rapid.SampledFrom([]int{3000, 20000, 70000}).Draw(t, "total")
		k := rapid.IntRange(1, 4).Draw(t, "chunks")
		for j := 0; j < k; j++ {
			s.Chunks = append(s.Chunks, rapid.SampledFrom([]int{1, 7, 100, 500, 1000, 1024, 1500, 2048, 3000, 4096, 9000}).Draw(t, "chunk"))
		}
		s.PauseUs = rapid.SampledFrom([]int{0, 50, 300}).Draw(t, "pauseUs")
		s.PerCall = rapid.IntRange(1, 6).Draw(t, "opsPerCall")
		no := rapid.IntRange(3, 14).Draw(t, "ops")
		for j := 0; j < no; j++ {
			var o connOp
			switch rapid.IntRange(0, 12).Draw(t, "op") {
			case 0, 1, 2, 3:
				o = connOp{Kind: "peek", Num: rapid.IntRange(0, 4).Draw(t, "num"), Den: 4, Add: rapid.SampledFrom([]int{0, 0, 1, -1, 2}).Draw(t, "add")}
			case 4, 5, 6:
				o = connOp{Kind: "discard", Num: rapid.IntRange(1, 4).Draw(t, "num"), Den: 4, Add: rapid.SampledFrom([]int{0, -1, -3, -100}).Draw(t, "add")}
			case 7:
				o = connOp{Kind: "next", Num: rapid.IntRange(1, 4).Draw(t, "num"), Den: 4, Add: rapid.SampledFrom([]int{0, -1, -100}).Draw(t, "add")}
			case 8:
				o = connOp{Kind: "read", Num: rapid.IntRange(1, 4).Draw(t, "num"), Den: 4, Add: rapid.SampledFrom([]int{0, -1, -100}).Draw(t, "add")}
			case 12:
				o = connOp{Kind: "writeto"}
			case 9, 10:
				o = connOp{Kind: "get", Num: rapid.SampledFrom([]int{1, 100, 300, 512, 600, 1024, 1500, 2048, 3000, 4096, 6000, 8192}).Draw(t, "size")}
			default:
				o = connOp{Kind: "put"}
			}
			s.Ops = append(s.Ops, o)
		}
		cs.Conns = append(cs.Conns, s)
	}
	return cs
}

const connStall = 8 * time.Second

func runConnCase(cs connCase) (sts []*connState, fails []string, infra string) {
	e, err := fx.Start(cs.Cfg, fx.EngineHooks{})
	if err != nil {
		return nil, nil, err.Error()
	}
	var wg sync.WaitGroup
	var mu sync.Mutex
	for i, sp := range cs.Conns {
		st := &connState{id: i, key: uint64(7000 + i), ops: sp.Ops, perCall: sp.PerCall, seen: map[*byte]bool{}, closed: make(chan struct{})}
		g := vio.Gen{Key: st.key}
		st.stream = g.Next(sp.Total)
		sts = append(sts, st)
		peer, _, err := e.Connect(st)
		if err != nil {
			_ = e.Stop()
			return sts, nil, err.Error()
		}
		wg.Add(1)
		go func(sp connSpec, st *connState) {
			defer wg.Done()
			defer peer.Close()
			off := 0
			for k := 0; off < len(st.stream); k++ {
				n := sp.Chunks[k%len(sp.Chunks)]
				if k >= 150 {
					n = 4096 // the shaped part is over: deliver the rest quickly
				}
				if off+n > len(st.stream) {
					n = len(st.stream) - off
				}
				_ = peer.SetWriteDeadline(time.Now().Add(connStall))
				if _, err := peer.Write(st.stream[off : off+n]); err != nil {
					mu.Lock()
					fails = append(fails, fmt.Sprintf("VERIF-KEY:conn-stall conn%d: the peer could not write (%v) after %d bytes", st.id, err, off))
					mu.Unlock()
					return
				}
				off += n
				if sp.PauseUs > 0 && k < 150 {
					time.Sleep(time.Duration(sp.PauseUs) * time.Microsecond)
				}
			}
			// every byte has been offered to the handler (consumed or buffered at a callback)
			dl := time.Now().Add(connStall)
			for atomic.LoadInt64(&st.offered) < int64(len(st.stream)) && time.Now().Before(dl) {
				time.Sleep(200 * time.Microsecond)
			}
		}(sp, st)
	}
	wg.Wait()
	for _, st := range sts {
		select {
		case <-st.closed:
		case <-time.After(connStall):
		}
	}
	if err := e.Stop(); err != nil {
		fails = append(fails, "VERIF-KEY:conn-stop "+err.Error())
	}
	for _, p := range e.Logger.Panics() {
		fails = append(fails, "VERIF-KEY:panic-logged "+p)
	}
	for _, st := range sts {
		st.mu.Lock()
		fails = append(fails, st.fails...)
		st.mu.Unlock()
		// the application gives its slices back
		for _, b := range st.held {
			bsPool.Put(b)
		}
		st.held = nil
	}
	return sts, fails, ""
}

func TestC12ConnPeekAndPools(t *testing.T) {
	st := vstat.New("C12.conn_peek_and_pools")
	defer st.Flush()
	rapid.Check(t, func(t *rapid.T) {
		cs := drawConnCase(t)
		sts, fails, infra := runConnCase(cs)
		if infra != "" {
			t.Fatalf("VERIF-INFRA %s\n%s", infra, cs)
		}
		st.Eval()
		recycled, peeks := 0, 0
		for _, s := range sts {
			recycled += s.recycled
			for _, h := range s.hist {
				if strings.HasPrefix(h, "Peek(") {
					peeks++
				}
			}
		}
		nt := recycled > 0 && peeks > 0
		if nt {
			st.NonTrivial(vstat.Hash(cs.String()))
			st.Label("application_got_recycled_memory_while_handlers_peeked")
		}
		st.LabelN("peeks", int64(peeks))
		if st.WantSample(nt) {
			st.Sample(nt, cs.String())
		}
		if len(fails) > 0 {
			t.Fatalf("%s\ncase:\n%s", strings.Join(fails, "\n"), cs)
		}
	})
}

func TestMain(m *testing.M) {
	code := m.Run()
	fx.Cleanup()
	os.Exit(code)
}
