package c12

// Several buffers (as several connections would hold them) and direct pool users
// share the global pools: nobody's content may change through somebody else.

import (
	"bytes"
	"fmt"
	"strings"
	"testing"

	"pgregory.net/rapid"

	"github.com/panjf2000/gnet/v2/pkg/buffer/elastic"
	"github.com/panjf2000/gnet/v2/pkg/buffer/linkedlist"
	bsPool "github.com/panjf2000/gnet/v2/pkg/pool/byteslice"
	"github.com/panjf2000/gnet/v2/verifx/vio"
	"github.com/panjf2000/gnet/v2/verifx/vstat"
)

func TestC12BuffersShareThePools(t *testing.T) {
	st := vstat.New("C12.buffers_share_pools")
	defer st.Flush()
	rapid.Check(t, func(t *rapid.T) {
		const nb = 3
		var lists [nb]linkedlist.Buffer
		var mixed [nb]elastic.Buffer
		var lmodel, mmodel [nb][]byte
		for i := range mixed {
			mixed[i].Reset(rapid.SampledFrom([]int{64, 1024, 4096}).Draw(t, "limit"))
		}
		gen := vio.Gen{Key: 1212}
		var held [][]byte // pool slices filled with 0x5A over their capacity
		var hist []string
		recycledSeen := false
		seen := map[*byte]bool{}
		fail := func(key, f string, a ...any) {
			t.Fatalf("VERIF-KEY:%s %s\nhistory: %s", key, fmt.Sprintf(f, a...), strings.Join(hist, "; "))
		}
		cat := func(bs [][]byte) []byte {
			var o []byte
			for _, b := range bs {
				o = append(o, b...)
			}
			return o
		}
		check := func() {
			for i := range lists {
				bs, _ := lists[i].Peek(-1)
				if !bytes.Equal(cat(bs), lmodel[i]) {
					fail("pool-buffer-corrupted", "list buffer %d no longer holds what was put into it (%d vs %d bytes)", i, len(cat(bs)), len(lmodel[i]))
				}
				ms, _ := mixed[i].Peek(-1)
				if !bytes.Equal(cat(ms), mmodel[i]) {
					fail("pool-buffer-corrupted", "mixed buffer %d no longer holds what was put into it (%d vs %d bytes)", i, len(cat(ms)), len(mmodel[i]))
				}
			}
			for k, b := range held {
				full := b[:cap(b)]
				for j := range full {
					if full[j] != 0x5A {
						fail("pool-canary", "byte %d of pool slice %d (cap %d) held by the application was overwritten", j, k, cap(b))
					}
				}
			}
		}
		defer func() {
			st.Eval()
			if recycledSeen {
				st.NonTrivial(vstat.Hash(strings.Join(hist, ";")))
				st.Label("served_from_recycled_memory")
			}
			if st.WantSample(recycledSeen) {
				st.Sample(recycledSeen, strings.Join(hist, "; "))
			}
			for i := range lists {
				lists[i].Reset()
				mixed[i].Release()
			}
			for _, b := range held {
				bsPool.Put(b)
			}
		}()
		sizes := []int{1, 100, 255, 256, 257, 511, 512, 513, 1000, 2048, 5000}
		t.Repeat(map[string]func(*rapid.T){
			"": func(*rapid.T) { check() },
			"listPush": func(t *rapid.T) {
				i := rapid.IntRange(0, nb-1).Draw(t, "buf")
				d := gen.Next(rapid.SampledFrom(sizes).Draw(t, "n"))
				hist = append(hist, fmt.Sprintf("list%d.PushBack(%d)", i, len(d)))
				lists[i].PushBack(d)
				lmodel[i] = append(lmodel[i], d...)
			},
			"listReadFrom": func(t *rapid.T) {
				i := rapid.IntRange(0, nb-1).Draw(t, "buf")
				r := vio.ReaderScript(t, "reader", &gen, 700, 256, 512)
				hist = append(hist, fmt.Sprintf("list%d.ReadFrom(%s)", i, r))
				_, _ = lists[i].ReadFrom(r)
				lmodel[i] = append(lmodel[i], r.Got...)
			},
			"listConsume": func(t *rapid.T) {
				i := rapid.IntRange(0, nb-1).Draw(t, "buf")
				k := rapid.SampledFrom(sizes).Draw(t, "k")
				if k > len(lmodel[i]) {
					k = len(lmodel[i])
				}
				hist = append(hist, fmt.Sprintf("list%d.consume(%d)", i, k))
				if rapid.Bool().Draw(t, "byRead") {
					p := make([]byte, k)
					n, _ := lists[i].Read(p)
					if n != k || !bytes.Equal(p[:n], lmodel[i][:n]) {
						fail("pool-buffer-corrupted", "list buffer %d: Read(%d) returned %d wrong bytes", i, k, n)
					}
				} else {
					_, _ = lists[i].Discard(k)
				}
				lmodel[i] = lmodel[i][k:]
			},
			"mixedRelease": func(t *rapid.T) {
				// what the framework does when a connection ends (for a broken one: once when the
				// failure is noticed and again when the connection is closed); the buffer is empty
				// afterwards, owns nothing any more and may be used again
				i := rapid.IntRange(0, nb-1).Draw(t, "buf")
				twice := rapid.Bool().Draw(t, "twice")
				hist = append(hist, fmt.Sprintf("mixed%d.Release(twice=%v)", i, twice))
				mixed[i].Release()
				if twice {
					mixed[i].Release()
				}
				mmodel[i] = nil
			},
			"mixedWrite": func(t *rapid.T) {
				i := rapid.IntRange(0, nb-1).Draw(t, "buf")
				d := gen.Next(rapid.SampledFrom(sizes).Draw(t, "n"))
				hist = append(hist, fmt.Sprintf("mixed%d.Write(%d)", i, len(d)))
				_, _ = mixed[i].Write(d)
				mmodel[i] = append(mmodel[i], d...)
			},
			"mixedReadFrom": func(t *rapid.T) {
				i := rapid.IntRange(0, nb-1).Draw(t, "buf")
				r := vio.ReaderScript(t, "reader", &gen, 700, 256, 512)
				hist = append(hist, fmt.Sprintf("mixed%d.ReadFrom(%s)", i, r))
				_, _ = mixed[i].ReadFrom(r)
				mmodel[i] = append(mmodel[i], r.Got...)
			},
			"mixedDiscard": func(t *rapid.T) {
				i := rapid.IntRange(0, nb-1).Draw(t, "buf")
				k := rapid.SampledFrom(sizes).Draw(t, "k")
				if k > len(mmodel[i]) {
					k = len(mmodel[i])
				}
				hist = append(hist, fmt.Sprintf("mixed%d.Discard(%d)", i, k))
				_, _ = mixed[i].Discard(k)
				mmodel[i] = mmodel[i][k:]
			},
			"poolGet": func(t *rapid.T) {
				if len(held) >= 12 {
					t.Skip("enough")
				}
				n := rapid.SampledFrom(sizes).Draw(t, "n")
				b := bsPool.Get(n)
				hist = append(hist, fmt.Sprintf("pool.Get(%d)", n))
				full := b[:cap(b)]
				if seen[&full[0]] {
					recycledSeen = true
				}
				seen[&full[0]] = true
				for j := range full {
					full[j] = 0x5A
				}
				held = append(held, b)
			},
			"poolPut": func(t *rapid.T) {
				if len(held) == 0 {
					t.Skip("nothing held")
				}
				i := rapid.IntRange(0, len(held)-1).Draw(t, "which")
				hist = append(hist, fmt.Sprintf("pool.Put(cap %d)", cap(held[i])))
				bsPool.Put(held[i])
				held = append(held[:i], held[i+1:]...)
			},
		})
	})
}
