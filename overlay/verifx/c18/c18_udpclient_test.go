// C18, datagram sites of a Client: connected UDP sockets (Client.Dial("udp", ...)) are
// read with recvfrom by (*eventloop).readUDP and written with send(2) by (*conn).sendTo
// and, for the OnOpen reply, by (*conn).open. The k-th call at one of these sites on one
// socket (the victim) fails with an injected errno while the other sockets of the client
// exchange stop-and-wait datagrams with the same peer:
//   - no panic, Client.Stop returns nil;
//   - a failed recvfrom neither loses nor duplicates a datagram (the shim fails the call
//     without consuming it; level-triggered mode reports the socket again);
//   - a failed send is reported to exactly the Write / AsyncWrite that made it, and
//     exactly that reply is missing at the peer;
//   - a failed send of the OnOpen reply closes exactly the victim: one OnClose carrying a
//     non-nil error;
//   - every other socket sees each of its datagrams exactly once, intact, and no OnClose.
package c18

import (
	"bytes"
	"encoding/binary"
	"fmt"
	"net"
	"strings"
	"sync"
	"sync/atomic"
	"testing"
	"time"

	"golang.org/x/sys/unix"
	"pgregory.net/rapid"

	gnet "github.com/panjf2000/gnet/v2"
	"github.com/panjf2000/gnet/v2/internal/vshim"
	"github.com/panjf2000/gnet/v2/verifx/fx"
	"github.com/panjf2000/gnet/v2/verifx/vstat"
)

const (
	siteCliRecv  = "(*eventloop).readUDP/recvfrom"
	siteCliSend  = "(*conn).sendTo/send"
	siteCliHello = "(*conn).open/send"
	// in the default build the sockets of a client are served by (*conn).processIO, which reads
	// with read(2) through (*eventloop).read: a failure there ends the socket like a stream's
	siteCliRead = "(*eventloop).read/read"
)

type ucState struct {
	id            int
	hello         bool
	async         bool
	gc            gnet.Conn
	fd            int32
	local         string
	opens, closes int32
	closeErr      error
}

type ucHandler struct {
	gnet.BuiltinEventEngine
	mu         sync.Mutex
	events     map[[2]int]int
	failedSend map[[2]int]error
	fails      []string
}

func (h *ucHandler) failf(f string, a ...any) {
	h.mu.Lock()
	if len(h.fails) < 8 {
		h.fails = append(h.fails, fmt.Sprintf(f, a...))
	}
	h.mu.Unlock()
}

func (h *ucHandler) OnOpen(c gnet.Conn) ([]byte, gnet.Action) {
	st, _ := c.Context().(*ucState)
	if st == nil {
		h.failf("VERIF-KEY:udpc-unbound OnOpen without the context given to Dial")
		return nil, gnet.None
	}
	atomic.AddInt32(&st.opens, 1)
	st.gc = c
	atomic.StoreInt32(&st.fd, int32(c.Fd()))
	if la := c.LocalAddr(); la != nil {
		st.local = la.String()
	}
	if st.hello {
		return []byte(fmt.Sprintf("HELLO%03d", st.id)), gnet.None
	}
	return nil, gnet.None
}

func (h *ucHandler) OnClose(c gnet.Conn, err error) gnet.Action {
	if st, _ := c.Context().(*ucState); st != nil {
		if atomic.AddInt32(&st.closes, 1) == 1 {
			st.closeErr = err
		}
	} else {
		h.failf("VERIF-KEY:udpc-unbound OnClose for a socket without context (second OnClose, or never opened)")
	}
	return gnet.None
}

func (h *ucHandler) OnTraffic(c gnet.Conn) gnet.Action {
	st, _ := c.Context().(*ucState)
	b, _ := c.Next(-1)
	if st == nil {
		h.failf("VERIF-KEY:udpc-traffic-closed OnTraffic (%d bytes) on a socket without context", len(b))
		return gnet.None
	}
	if len(b) < 8 {
		h.failf("VERIF-KEY:udp-fault-payload conn%d: an event offered %d bytes, no datagram that short was sent", st.id, len(b))
		return gnet.None
	}
	k := [2]int{int(binary.BigEndian.Uint32(b)), int(binary.BigEndian.Uint32(b[4:]))}
	ok := k[0] == st.id && bytes.Equal(b, udpPayload(k[0], k[1]))
	out := append([]byte(nil), b...)
	var n int
	var err error
	if st.async {
		err = c.AsyncWrite(out, nil) // documented to go synchronously with UDP
		n = len(out)
		if err != nil {
			n = 0
		}
	} else {
		n, err = c.Write(out)
	}
	h.mu.Lock()
	defer h.mu.Unlock()
	h.events[k]++
	if !ok {
		h.fails = append(h.fails, fmt.Sprintf("VERIF-KEY:udp-fault-payload conn%d: the event for datagram %v does not offer exactly its payload", st.id, k))
	}
	switch {
	case err != nil && n != 0:
		h.fails = append(h.fails, fmt.Sprintf("VERIF-KEY:udp-fault-write Write returned (%d, %v): an error together with a byte count", n, err))
		h.failedSend[k] = err
	case err != nil:
		h.failedSend[k] = err
	case n != len(out):
		h.fails = append(h.fails, fmt.Sprintf("VERIF-KEY:udp-fault-write Write of %d bytes returned (%d, nil)", len(out), n))
	}
	return gnet.None
}

type ucCase struct {
	Loops  int
	Conns  []ucConnSpec
	Victim int
	Faults []udpFault
	Rounds int
}

type ucConnSpec struct {
	Hello, Async bool
}

func (c ucCase) String() string {
	var fs []string
	for _, f := range c.Faults {
		fs = append(fs, fmt.Sprintf("%s errno=%v k=%d", f.Site, f.Errno, f.K))
	}
	return fmt.Sprintf("udp client loops=%d conns=%+v victim=%d rounds=%d faults=[%s]", c.Loops, c.Conns, c.Victim, c.Rounds, strings.Join(fs, "; "))
}

func runUDPClientFault(cs ucCase) (fails []string, infra string, delivered int) {
	plan := &vshim.Plan{}
	vshim.Install(plan)
	defer vshim.Install(nil)
	h := &ucHandler{events: map[[2]int]int{}, failedSend: map[[2]int]error{}}
	lg := &fx.CaptureLogger{}
	cli, err := gnet.NewClient(h, gnet.WithNumEventLoop(cs.Loops), gnet.WithLogger(lg), gnet.WithReadBufferCap(2048))
	if err != nil {
		return nil, "NewClient: " + err.Error(), 0
	}
	if err := cli.Start(); err != nil {
		return nil, "Client.Start: " + err.Error(), 0
	}
	stopped := false
	defer func() {
		if !stopped {
			_ = cli.Stop()
		}
	}()
	peer, err := net.ListenUDP("udp4", &net.UDPAddr{IP: net.ParseIP(fx.Host("udp4"))})
	if err != nil {
		return nil, "peer socket: " + err.Error(), 0
	}
	defer peer.Close()
	add := func(f string, a ...any) { fails = append(fails, fmt.Sprintf(f, a...)) }
	// datagrams reaching the peer, by source address
	var pmu sync.Mutex
	inbox := map[string][][]byte{}
	go func() {
		buf := make([]byte, 4096)
		for {
			n, from, err := peer.ReadFromUDP(buf)
			if err != nil {
				return
			}
			pmu.Lock()
			inbox[from.String()] = append(inbox[from.String()], append([]byte(nil), buf[:n]...))
			pmu.Unlock()
		}
	}()
	take := func(from string) ([]byte, bool) {
		pmu.Lock()
		defer pmu.Unlock()
		q := inbox[from]
		if len(q) == 0 {
			return nil, false
		}
		inbox[from] = q[1:]
		return q[0], true
	}
	var installed []*vshim.Fault
	var specOf []udpFault
	install := func(f udpFault, fd int) {
		vf := &vshim.Fault{Site: f.Site, Fd: fd, K: f.K, Errno: f.Errno}
		installed = append(installed, vf)
		specOf = append(specOf, f)
		plan.AddFault(vf)
	}
	helloFault := false
	var sts []*ucState
	for i, c := range cs.Conns {
		st := &ucState{id: i, hello: c.Hello, async: c.Async}
		if i == cs.Victim {
			for _, f := range cs.Faults {
				if f.Site == siteCliHello {
					st.hello = true
					helloFault = true
					install(f, -1) // nothing else is being opened right now
				}
			}
		}
		if _, err := cli.DialContext("udp4", peer.LocalAddr().String(), st); err != nil {
			return nil, "Dial udp: " + err.Error(), 0
		}
		sts = append(sts, st)
	}
	vst := sts[cs.Victim]
	for _, f := range cs.Faults {
		// a victim whose OnOpen reply fails is gone, and its descriptor number may already belong
		// to a socket dialled after it: further faults are armed only on a victim that lives
		if f.Site != siteCliHello && !helloFault {
			install(f, int(atomic.LoadInt32(&vst.fd)))
		}
	}
	// the OnOpen replies
	for _, st := range sts {
		if !st.hello {
			continue
		}
		want := fmt.Sprintf("HELLO%03d", st.id)
		dl := time.Now().Add(bound)
		for {
			if b, ok := take(st.local); ok {
				if string(b) != want {
					add("VERIF-KEY:udpc-hello conn%d: the first datagram from %s is %q, OnOpen answered %q", st.id, st.local, b, want)
				}
				break
			}
			if st == vst && helloFault {
				break // judged below
			}
			if time.Now().After(dl) {
				add("VERIF-KEY:udpc-hello conn%d: the reply of OnOpen did not arrive within %v", st.id, bound)
				break
			}
			time.Sleep(200 * time.Microsecond)
		}
	}
	helloDelivered := func() bool {
		for k, f := range installed {
			if specOf[k].Site == siteCliHello && atomic.LoadInt32(&f.Delivered) == 1 {
				return true
			}
		}
		return false
	}
	victimDead := false
	if helloFault && helloDelivered() {
		victimDead = true
		dl := time.Now().Add(bound)
		for atomic.LoadInt32(&vst.closes) == 0 && time.Now().Before(dl) {
			time.Sleep(200 * time.Microsecond)
		}
		switch n := atomic.LoadInt32(&vst.closes); {
		case n == 0:
			add("VERIF-KEY:fault-noclose the send of the victim's OnOpen reply failed (delivered), but no OnClose followed within %v", bound)
		case vst.closeErr == nil:
			add("VERIF-KEY:fault-close-err the victim was closed because its OnOpen reply could not be sent, but OnClose reported a nil error")
		}
		if b, ok := take(vst.local); ok {
			add("VERIF-KEY:udpc-hello the send of the victim's OnOpen reply was failed by the shim, yet %q arrived", b)
		}
	}
	failedSend := func(k [2]int) bool {
		h.mu.Lock()
		defer h.mu.Unlock()
		_, ok := h.failedSend[k]
		return ok
	}
	readFatal := func() (unix.Errno, bool) {
		for k, f := range installed {
			if specOf[k].Site == siteCliRead && specOf[k].Errno != unix.EAGAIN && atomic.LoadInt32(&f.Delivered) == 1 {
				return specOf[k].Errno, true
			}
		}
		return 0, false
	}
	// stop-and-wait rounds over all live sockets; one extra round after every fault has struck
	for seq := 0; seq <= cs.Rounds && len(fails) == 0; seq++ {
		for _, st := range sts {
			if st == vst && victimDead {
				continue
			}
			to, err := net.ResolveUDPAddr("udp4", st.local)
			if err != nil {
				return nil, "resolve " + st.local + ": " + err.Error(), 0
			}
			want := udpPayload(st.id, seq)
			if _, err := peer.WriteToUDP(want, to); err != nil {
				return nil, "peer send: " + err.Error(), 0
			}
			dl := time.Now().Add(bound)
			for {
				if b, ok := take(st.local); ok {
					if !bytes.Equal(b, want) {
						add("VERIF-KEY:udp-fault-reply conn%d: the reply to datagram %d is not its echo (%d bytes)", st.id, seq, len(b))
					}
					if failedSend([2]int{st.id, seq}) {
						add("VERIF-KEY:udp-fault-reply conn%d: the write of the reply to datagram %d reported an error, yet the reply arrived", st.id, seq)
					}
					break
				}
				if failedSend([2]int{st.id, seq}) {
					break
				}
				if st == vst && atomic.LoadInt32(&vst.closes) > 0 {
					if errno, ok := readFatal(); ok {
						victimDead = true
						if vst.closeErr == nil {
							add("VERIF-KEY:fault-close-err the victim was closed because read failed with %v, but OnClose reported a nil error", errno)
						}
						break
					}
				}
				if time.Now().After(dl) {
					h.mu.Lock()
					n := h.events[[2]int{st.id, seq}]
					h.mu.Unlock()
					add("VERIF-KEY:udp-fault-lost conn%d (victim: %v): no reply to datagram %d within %v and no write reported an error for it (events seen for it: %d)", st.id, st == vst, seq, bound, n)
					break
				}
				time.Sleep(100 * time.Microsecond)
			}
		}
	}
	for _, st := range sts {
		n := atomic.LoadInt32(&st.closes)
		if st == vst && victimDead {
			if n > 1 {
				add("VERIF-KEY:fault-close-twice the victim saw %d OnClose calls", n)
			}
			continue
		}
		if n != 0 {
			add("VERIF-KEY:fault-bystander conn%d (victim: %v) saw OnClose (%v) although no fatal fault struck it", st.id, st == vst, st.closeErr)
		}
	}
	stopped = true
	if err := cli.Stop(); err != nil {
		add("VERIF-KEY:udp-fault-stop Client.Stop: %v", err)
	}
	for _, p := range lg.Panics() {
		add("VERIF-KEY:panic-logged %s", p)
	}
	for _, st := range sts {
		if o, c := atomic.LoadInt32(&st.opens), atomic.LoadInt32(&st.closes); o != 1 || c != 1 {
			add("VERIF-KEY:udpc-lifecycle conn%d: %d OnOpen, %d OnClose by the time Client.Stop returned", st.id, o, c)
		}
	}
	h.mu.Lock()
	defer h.mu.Unlock()
	fails = append(fails, h.fails...)
	if len(fails) == 0 {
		for _, st := range sts {
			if st == vst && victimDead {
				continue
			}
			for seq := 0; seq <= cs.Rounds; seq++ {
				if n := h.events[[2]int{st.id, seq}]; n != 1 {
					add("VERIF-KEY:udp-fault-events datagram %d.%d produced %d events (a failing recvfrom neither consumes nor duplicates a datagram)", st.id, seq, n)
				}
			}
		}
	}
	nSend := 0
	for k, f := range installed {
		if atomic.LoadInt32(&f.Delivered) == 1 {
			delivered++
			if specOf[k].Site == siteCliSend {
				nSend++
			}
		}
	}
	if len(h.failedSend) != nSend {
		add("VERIF-KEY:udp-fault-write %d send calls were failed by the shim, the handler saw %d failing writes (%v)", nSend, len(h.failedSend), h.failedSend)
	}
	return fails, "", delivered
}

func TestC18UDPClient(t *testing.T) {
	st := vstat.New("C18.udp_client_sites")
	defer st.Flush()
	rapid.Check(t, func(t *rapid.T) {
		var cs ucCase
		cs.Loops = rapid.IntRange(1, 3).Draw(t, "loops")
		n := rapid.IntRange(1, 4).Draw(t, "conns")
		for i := 0; i < n; i++ {
			cs.Conns = append(cs.Conns, ucConnSpec{Hello: rapid.Bool().Draw(t, "hello"), Async: rapid.Bool().Draw(t, "async")})
		}
		cs.Victim = rapid.IntRange(0, n-1).Draw(t, "victim")
		cs.Rounds = rapid.IntRange(2, 8).Draw(t, "rounds")
		nf := rapid.IntRange(1, 2).Draw(t, "faults")
		for i := 0; i < nf; i++ {
			var f udpFault
			switch rapid.IntRange(0, 4).Draw(t, "site") {
			case 0, 1:
				f.Site = siteCliRecv
				f.Errno = rapid.SampledFrom([]unix.Errno{unix.EAGAIN, unix.EINTR, unix.ECONNREFUSED, unix.ENOMEM, unix.ENOBUFS, unix.EIO}).Draw(t, "errno")
				f.K = rapid.IntRange(1, 8).Draw(t, "k")
				if rapid.IntRange(0, 2).Draw(t, "readSite") == 0 {
					f.Site = siteCliRead // default build
					f.Errno = rapid.SampledFrom([]unix.Errno{unix.EAGAIN, unix.ECONNREFUSED, unix.EIO, unix.ENOMEM}).Draw(t, "readErrno")
				}
			case 2, 3:
				f.Site = siteCliSend
				f.Errno = rapid.SampledFrom([]unix.Errno{unix.EAGAIN, unix.EPERM, unix.ENOBUFS, unix.ECONNREFUSED, unix.EMSGSIZE, unix.ENETUNREACH, unix.EINTR}).Draw(t, "errno")
				f.K = rapid.IntRange(1, 8).Draw(t, "k")
			default:
				if i > 0 && cs.Faults[0].Site == siteCliHello {
					f.Site = siteCliRecv
					f.Errno = unix.EIO
					f.K = 1
					break
				}
				f.Site = siteCliHello
				f.Errno = rapid.SampledFrom([]unix.Errno{unix.ECONNREFUSED, unix.EPERM, unix.ENOBUFS, unix.ENETUNREACH}).Draw(t, "errno")
				f.K = 1
			}
			cs.Faults = append(cs.Faults, f)
		}
		fails, infra, delivered := runUDPClientFault(cs)
		if infra != "" {
			t.Fatalf("VERIF-INFRA %s\n%s", infra, cs)
		}
		st.Eval()
		if delivered > 0 {
			st.NonTrivial(vstat.Hash(cs.String()))
			st.Label("fault_delivered")
		} else {
			st.Label("fault_site_not_reached_k_times")
		}
		for _, f := range cs.Faults {
			st.Label("site " + f.Site + " " + f.Errno.Error())
		}
		if st.WantSample(delivered > 0) {
			st.Sample(delivered > 0, cs.String())
		}
		if len(fails) > 0 {
			t.Fatalf("%s\ncase: %s", strings.Join(fails, "\n"), cs)
		}
	})
}
