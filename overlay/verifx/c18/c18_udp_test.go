// C18, datagram sites: recvfrom on the UDP listener and sendto of a reply fail
// with an injected errno. There is no connection to close for a server-side
// datagram, so what the property leaves to check is: no panic, the engine keeps
// serving every sender, no datagram is lost or duplicated because a recvfrom
// failed (the shim fails the call without consuming the datagram), and a failed
// sendto is reported to the handler that called Write - exactly that reply, and
// no other, is missing at the sender.
package c18

import (
	"bytes"
	"encoding/binary"
	"fmt"
	"net"
	"strings"
	"sync"
	"testing"
	"time"

	"golang.org/x/sys/unix"
	"pgregory.net/rapid"

	gnet "github.com/panjf2000/gnet/v2"
	"github.com/panjf2000/gnet/v2/internal/vshim"
	"github.com/panjf2000/gnet/v2/verifx/fx"
	"github.com/panjf2000/gnet/v2/verifx/vio"
	"github.com/panjf2000/gnet/v2/verifx/vstat"
)

type udpFault struct {
	Site  string
	Errno unix.Errno
	K     int
}

type udpCase struct {
	Net     string
	Loops   int
	Senders []int // datagrams per sender
	Faults  []udpFault
}

func (c udpCase) String() string {
	var fs []string
	for _, f := range c.Faults {
		fs = append(fs, fmt.Sprintf("%s errno=%v k=%d", f.Site, f.Errno, f.K))
	}
	return fmt.Sprintf("%s loops=%d senders=%v faults=[%s]", c.Net, c.Loops, c.Senders, strings.Join(fs, "; "))
}

const (
	siteRecvfrom = "(*eventloop).readUDP/recvfrom"
	siteSendto   = "(*conn).sendTo/sendto"
)

func udpPayload(sender, seq int) []byte {
	b := make([]byte, 8+(sender*37+seq*101)%900)
	binary.BigEndian.PutUint32(b, uint32(sender))
	binary.BigEndian.PutUint32(b[4:], uint32(seq))
	vio.Fill(b[8:], uint64(sender)<<20|uint64(seq), 0)
	return b
}

type udpServer struct {
	mu         sync.Mutex
	events     map[[2]int]int
	failedSend map[[2]int]error
	fails      []string
}

func (s *udpServer) OnOpen(gnet.Conn) ([]byte, gnet.Action) { return nil, gnet.None }
func (s *udpServer) OnClose(gnet.Conn, error) gnet.Action   { return gnet.None }
func (s *udpServer) OnTraffic(c gnet.Conn) gnet.Action {
	b, _ := c.Next(-1)
	if len(b) < 8 {
		s.mu.Lock()
		s.fails = append(s.fails, fmt.Sprintf("VERIF-KEY:udp-fault-payload an event offered %d bytes, no datagram that short was sent", len(b)))
		s.mu.Unlock()
		return gnet.None
	}
	k := [2]int{int(binary.BigEndian.Uint32(b)), int(binary.BigEndian.Uint32(b[4:]))}
	ok := bytes.Equal(b, udpPayload(k[0], k[1]))
	out := append([]byte(nil), b...)
	n, err := c.Write(out)
	s.mu.Lock()
	defer s.mu.Unlock()
	s.events[k]++
	if !ok {
		s.fails = append(s.fails, fmt.Sprintf("VERIF-KEY:udp-fault-payload the event for datagram %v does not offer exactly its payload", k))
	}
	switch {
	case err != nil && n != 0:
		s.fails = append(s.fails, fmt.Sprintf("VERIF-KEY:udp-fault-write Write returned (%d, %v): an error together with a byte count", n, err))
		s.failedSend[k] = err
	case err != nil:
		s.failedSend[k] = err
	case n != len(out):
		s.fails = append(s.fails, fmt.Sprintf("VERIF-KEY:udp-fault-write Write of %d bytes returned (%d, nil)", len(out), n))
	}
	return gnet.None
}

func runUDPFault(cs udpCase) (fails []string, infra string, delivered int) {
	plan := &vshim.Plan{}
	vshim.Install(plan)
	defer vshim.Install(nil)
	srv := &udpServer{events: map[[2]int]int{}, failedSend: map[[2]int]error{}}
	cfg := fx.Cfg{Net: cs.Net, Loops: cs.Loops, ReadCap: 2048, WriteCap: 1024}
	e, err := fx.Start(cfg, fx.EngineHooks{Unbound: func(gnet.Conn) fx.ConnHooks { return srv }})
	if err != nil {
		return nil, err.Error(), 0
	}
	var installed []*vshim.Fault
	for _, f := range cs.Faults {
		vf := &vshim.Fault{Site: f.Site, Fd: -1, K: f.K, Errno: f.Errno}
		installed = append(installed, vf)
		plan.AddFault(vf)
	}
	raddr, err := net.ResolveUDPAddr(cs.Net, e.Addr)
	if err != nil {
		_ = e.Stop()
		return nil, "resolve: " + err.Error(), 0
	}
	ip := net.ParseIP(strings.Trim(fx.Host(cs.Net), "[]"))
	var mu sync.Mutex
	add := func(f string, a ...any) { mu.Lock(); fails = append(fails, fmt.Sprintf(f, a...)); mu.Unlock() }
	sendFailed := func(k [2]int) (error, bool) {
		srv.mu.Lock()
		defer srv.mu.Unlock()
		err, ok := srv.failedSend[k]
		return err, ok
	}
	var wg sync.WaitGroup
	for i, nd := range cs.Senders {
		wg.Add(1)
		go func(i, nd int) {
			defer wg.Done()
			c, err := net.ListenUDP(cs.Net, &net.UDPAddr{IP: ip})
			if err != nil {
				add("VERIF-INFRA sender socket: %v", err)
				return
			}
			defer c.Close()
			buf := make([]byte, 4096)
			// nd datagrams, then one more after every fault has struck: the engine still serves this sender
			for seq := 0; seq <= nd; seq++ {
				want := udpPayload(i, seq)
				if _, err := c.WriteToUDP(want, raddr); err != nil {
					add("VERIF-INFRA sender %d: %v", i, err)
					return
				}
				deadline := time.Now().Add(bound)
				for {
					_ = c.SetReadDeadline(time.Now().Add(20 * time.Millisecond))
					n, _, err := c.ReadFromUDP(buf)
					if err == nil {
						if !bytes.Equal(buf[:n], want) {
							add("VERIF-KEY:udp-fault-reply sender %d: the reply to datagram %d is not its echo (%d bytes)", i, seq, n)
						}
						if _, failed := sendFailed([2]int{i, seq}); failed {
							add("VERIF-KEY:udp-fault-reply sender %d: Write reported an error for the reply to datagram %d, yet the reply arrived", i, seq)
						}
						break
					}
					if _, failed := sendFailed([2]int{i, seq}); failed {
						break // the handler was told that this reply could not be sent
					}
					if time.Now().After(deadline) {
						add("VERIF-KEY:udp-fault-lost sender %d: no reply to datagram %d within %v and no Write reported an error for it (events seen for it: %d)", i, seq, bound, func() int { srv.mu.Lock(); defer srv.mu.Unlock(); return srv.events[[2]int{i, seq}] }())
						return
					}
				}
			}
		}(i, nd)
	}
	wg.Wait()
	if err := e.Stop(); err != nil {
		fails = append(fails, "VERIF-KEY:udp-fault-stop "+err.Error())
	}
	for _, p := range e.Logger.Panics() {
		fails = append(fails, "VERIF-KEY:panic-logged "+p)
	}
	srv.mu.Lock()
	defer srv.mu.Unlock()
	fails = append(fails, srv.fails...)
	if len(fails) == 0 {
		for i, nd := range cs.Senders {
			for seq := 0; seq <= nd; seq++ {
				if n := srv.events[[2]int{i, seq}]; n != 1 {
					fails = append(fails, fmt.Sprintf("VERIF-KEY:udp-fault-events datagram %d.%d produced %d events (a failing recvfrom neither consumes nor duplicates a datagram)", i, seq, n))
				}
			}
		}
	}
	nSendFaults := 0
	for k, f := range installed {
		if f.Delivered == 1 {
			delivered++
			if cs.Faults[k].Site == siteSendto {
				nSendFaults++
			}
		}
	}
	if len(srv.failedSend) != nSendFaults {
		fails = append(fails, fmt.Sprintf("VERIF-KEY:udp-fault-write %d sendto calls were failed by the shim, the handler saw %d failing Write calls (%v)", nSendFaults, len(srv.failedSend), srv.failedSend))
	}
	return fails, "", delivered
}

func TestC18UDP(t *testing.T) {
	st := vstat.New("C18.udp_sites")
	defer st.Flush()
	rapid.Check(t, func(t *rapid.T) {
		var cs udpCase
		nets := []string{"udp4", "udp4"}
		if fx.HasIPv6 {
			nets = append(nets, "udp6")
		}
		cs.Net = rapid.SampledFrom(nets).Draw(t, "net")
		cs.Loops = rapid.IntRange(1, 3).Draw(t, "loops")
		ns := rapid.IntRange(1, 4).Draw(t, "senders")
		for i := 0; i < ns; i++ {
			cs.Senders = append(cs.Senders, rapid.IntRange(2, 8).Draw(t, "datagrams"))
		}
		nf := rapid.IntRange(1, 2).Draw(t, "faults")
		for i := 0; i < nf; i++ {
			var f udpFault
			if rapid.Bool().Draw(t, "recv") {
				f.Site = siteRecvfrom
				f.Errno = rapid.SampledFrom([]unix.Errno{unix.EAGAIN, unix.EINTR, unix.ECONNREFUSED, unix.ENOMEM, unix.ENOBUFS, unix.EIO}).Draw(t, "errno")
			} else {
				f.Site = siteSendto
				f.Errno = rapid.SampledFrom([]unix.Errno{unix.EAGAIN, unix.EPERM, unix.ENOBUFS, unix.ECONNREFUSED, unix.EMSGSIZE, unix.ENETUNREACH, unix.EINTR}).Draw(t, "errno")
			}
			f.K = rapid.IntRange(1, 8).Draw(t, "k")
			cs.Faults = append(cs.Faults, f)
		}
		fails, infra, delivered := runUDPFault(cs)
		if infra != "" {
			t.Fatalf("VERIF-INFRA %s\n%s", infra, cs)
		}
		for _, f := range fails {
			if strings.HasPrefix(f, "VERIF-INFRA") {
				t.Fatalf("%s\n%s", f, cs)
			}
		}
		st.Eval()
		if delivered > 0 {
			st.NonTrivial(vstat.Hash(cs.String()))
			st.Label("fault_delivered")
		} else {
			st.Label("fault_site_not_reached_k_times")
		}
		for _, f := range cs.Faults {
			st.Label("site " + f.Site + " " + f.Errno.Error())
		}
		if st.WantSample(delivered > 0) {
			st.Sample(delivered > 0, cs.String())
		}
		if len(fails) > 0 {
			t.Fatalf("%s\ncase: %s", strings.Join(fails, "\n"), cs)
		}
	})
}
