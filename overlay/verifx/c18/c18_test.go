// C18 — an I/O failure on one connection stays on that connection (fault enumeration).
package c18

import (
	"bytes"
	"errors"
	"fmt"
	"net"
	"os"
	"sort"
	"strings"
	"sync"
	"sync/atomic"
	"testing"
	"time"

	"golang.org/x/sys/unix"
	"pgregory.net/rapid"

	gnet "github.com/panjf2000/gnet/v2"
	"github.com/panjf2000/gnet/v2/internal/vshim"
	"github.com/panjf2000/gnet/v2/verifx/fx"
	"github.com/panjf2000/gnet/v2/verifx/vio"
	"github.com/panjf2000/gnet/v2/verifx/vstat"
)

const bound = 8 * time.Second

// faultSpec: one injected failure.
type faultSpec struct {
	Site  string
	Errno unix.Errno
	K     int
	// Class: fatal (victim closed with a non-nil error), transient (no visible effect),
	// preopen (registration fails: never opened, socket closed), atclose (fails while the victim is being closed anyway)
	Class string
	// Setup: what must happen for the site to be reached
	Setup string // traffic, open-reply, backlog (a write hit EAGAIN before, so data is pending), peer-close
}

type caseSpec struct {
	Cfg        fx.Cfg
	F          faultSpec
	Second     *faultSpec // optional second fault (pairs)
	EchoMode   string     // write, writev, writev-many (one slice per byte), asyncwrite
	Bystanders int
}

func (c caseSpec) String() string {
	s := fmt.Sprintf("cfg: %s\n fault: %s errno=%v k=%d class=%s setup=%s echo=%s bystanders=%d", c.Cfg, c.F.Site, c.F.Errno, c.F.K, c.F.Class, c.F.Setup, c.EchoMode, c.Bystanders)
	if c.Second != nil {
		s += fmt.Sprintf("\n second fault: %s errno=%v k=%d class=%s", c.Second.Site, c.Second.Errno, c.Second.K, c.Second.Class)
	}
	return s
}

// table returns the fault table for a configuration.
func table(cfg fx.Cfg, full bool) []faultSpec {
	var t []faultSpec
	add := func(site, class, setup string, errnos ...unix.Errno) {
		for i, e := range errnos {
			if !full && i > 0 {
				break
			}
			t = append(t, faultSpec{Site: site, Errno: e, Class: class, Setup: setup})
		}
	}
	lt := !cfg.ET
	acceptSite := "(*eventloop).accept0/accept4"
	if cfg.ReusePort {
		acceptSite = "(*eventloop).accept/accept4"
	}
	addSite := "(*Poller).AddRead/epoll_ctl_add"
	if cfg.ET {
		addSite = "(*Poller).AddReadWrite/epoll_ctl_add"
	}
	add("(*eventloop).read/read", "fatal", "traffic", unix.ECONNRESET, unix.ETIMEDOUT, unix.ENOTCONN)
	add("(*conn).write/write", "fatal", "traffic", unix.EPIPE, unix.ECONNRESET, unix.ETIMEDOUT)
	add("(*conn).writev/writev", "fatal", "traffic", unix.EPIPE, unix.ECONNRESET)
	add("(*conn).open/write", "fatal", "open-reply", unix.ECONNRESET, unix.EPIPE)
	if !cfg.Client {
		add(acceptSite, "transient", "connect", unix.ECONNABORTED, unix.EINTR, unix.ECONNRESET)
	}
	add(addSite, "preopen", "connect", unix.ENOMEM, unix.ENOSPC)
	add("(*Poller).Delete/epoll_ctl_del", "atclose", "peer-close", unix.ENOENT, unix.ENOMEM)
	add("(*eventloop).close/close", "atclose", "peer-close", unix.EIO, unix.EINTR)
	add("(*Poller).Polling/epoll_wait", "transient", "traffic", unix.EINTR)
	// sites that need unsent output on the victim (the handler floods a peer that is not reading yet)
	add("(*eventloop).write/writev", "fatal", "flood", unix.EPIPE, unix.ECONNRESET)
	add("(*eventloop).close/writev", "atclose", "flood-close", unix.EPIPE, unix.ECONNRESET)
	if lt {
		add("(*Poller).ModReadWrite/epoll_ctl_mod", "fatal", "flood", unix.ENOMEM)
		add("(*Poller).ModRead/epoll_ctl_mod", "fatal", "flood", unix.ENOMEM)
		add("(*eventloop).write/writev", "transient", "flood", unix.EAGAIN)
	}
	if lt {
		add("(*eventloop).read/read", "transient", "traffic", unix.EAGAIN)
		add("(*conn).write/write", "transient", "traffic", unix.EAGAIN)
		add("(*conn).writev/writev", "transient", "traffic", unix.EAGAIN)
		add("(*conn).open/write", "transient", "open-reply", unix.EAGAIN)
	}
	return t
}

// ---- handler -------------------------------------------------------------------------------------

type cstate struct {
	id            int
	mode          string
	reply         bool
	gc            gnet.Conn
	fd            int32
	opens, closes int32
	closeErr      error
	closedCh      chan struct{}
	mu            sync.Mutex
	fails         []string
	flooded       int32
}

const floodSize = 3 << 20

func (c *cstate) OnOpen(gc gnet.Conn) ([]byte, gnet.Action) {
	atomic.AddInt32(&c.opens, 1)
	c.gc = gc
	atomic.StoreInt32(&c.fd, int32(gc.Fd()))
	if c.reply {
		return []byte("HELLO"), gnet.None
	}
	return nil, gnet.None
}

func (c *cstate) OnTraffic(gc gnet.Conn) gnet.Action {
	b, _ := gc.Next(-1)
	if len(b) == 0 {
		return gnet.None
	}
	out := append([]byte(nil), b...)
	switch c.mode {
	case "flood":
		if atomic.CompareAndSwapInt32(&c.flooded, 0, 1) {
			p := make([]byte, floodSize)
			vio.Fill(p, 4242, 0)
			_, _ = gc.Write(p) // the peer is not reading: most of it stays in the outbound buffer
		}
		return gnet.None
	case "writev":
		h := len(out) / 2
		_, _ = gc.Writev([][]byte{out[:h], out[h:]})
	case "writev-many":
		// one slice per byte: more slices than one writev(2) takes (IOV_MAX)
		bs := make([][]byte, len(out))
		for i := range out {
			bs[i] = out[i : i+1]
		}
		_, _ = gc.Writev(bs)
	case "asyncwrite":
		_ = gc.AsyncWrite(out, nil)
	case "farewell":
		// no echo: this handler only says good-bye, from inside OnClose
	default:
		_, _ = gc.Write(out)
	}
	return gnet.None
}

func (c *cstate) OnClose(gc gnet.Conn, err error) gnet.Action {
	if atomic.AddInt32(&c.closes, 1) == 1 {
		c.closeErr = err
		if c.mode == "farewell" {
			_, _ = gc.Write([]byte("bye")) // may fail as well: the connection is already on its way out
		}
		close(c.closedCh)
	}
	return gnet.None
}

// echoer drives one connection from the peer side and checks both directions.
type echoer struct {
	c     net.Conn
	st    *cstate
	gen   vio.Gen
	hello bool
	dead  error
}

func (e *echoer) round(n int) error {
	if e.dead != nil {
		return e.dead
	}
	msg := e.gen.Next(n)
	_ = e.c.SetDeadline(time.Now().Add(bound))
	if _, err := e.c.Write(msg); err != nil {
		e.dead = err
		return err
	}
	want := msg
	if e.hello {
		want = append([]byte("HELLO"), msg...)
		e.hello = false
	}
	got := make([]byte, len(want))
	if _, err := readFull(e.c, got); err != nil {
		e.dead = err
		return err
	}
	if !bytes.Equal(got, want) {
		e.dead = fmt.Errorf("echo mismatch: sent %d bytes, the echo differs at offset %d", len(msg), firstDiff(got, want))
		return e.dead
	}
	return nil
}

func readFull(c net.Conn, p []byte) (int, error) {
	n := 0
	for n < len(p) {
		m, err := c.Read(p[n:])
		n += m
		if err != nil {
			return n, err
		}
	}
	return n, nil
}

func firstDiff(a, b []byte) int {
	for i := range a {
		if i >= len(b) || a[i] != b[i] {
			return i
		}
	}
	return len(a)
}

func isTimeout(err error) bool {
	var ne net.Error
	return errors.As(err, &ne) && ne.Timeout()
}

// ---- one case -----------------------------------------------------------------------------------

type outcome struct {
	fails     []string
	infra     string
	delivered bool
	sites     map[string]int
}

func runFault(cs caseSpec) (o outcome) {
	add := func(key, f string, a ...any) {
		o.fails = append(o.fails, fmt.Sprintf("VERIF-KEY:%s %s", key, fmt.Sprintf(f, a...)))
	}
	plan := &vshim.Plan{}
	vshim.Install(plan)
	defer vshim.Install(nil)
	e, err := fx.Start(cs.Cfg, fx.EngineHooks{})
	if err != nil {
		o.infra = err.Error()
		return
	}
	stopped := false
	stop := func() {
		if !stopped {
			stopped = true
			if err := e.Stop(); err != nil {
				add("fault-stop", "engine stop after the fault: %v", err)
			}
		}
	}
	defer stop()
	newConn := func(id int, mode string, reply bool) (*echoer, *cstate, error) {
		st := &cstate{id: id, mode: mode, reply: reply, closedCh: make(chan struct{})}
		p, _, err := e.Connect(st)
		if err != nil {
			return nil, st, err
		}
		return &echoer{c: p, st: st, gen: vio.Gen{Key: uint64(id)*977 + 5}, hello: reply}, st, nil
	}
	// bystanders first, with some traffic
	var bys []*echoer
	for i := 0; i < cs.Bystanders; i++ {
		b, _, err := newConn(100+i, []string{"write", "writev", "asyncwrite"}[i%3], i%2 == 0)
		if err != nil {
			o.infra = "bystander connect: " + err.Error()
			return
		}
		bys = append(bys, b)
		if err := b.round(300 + i); err != nil {
			o.infra = "bystander warm-up: " + err.Error()
			return
		}
	}
	faults := []faultSpec{cs.F}
	if cs.Second != nil {
		faults = append(faults, *cs.Second)
	}
	var installed []*vshim.Fault
	install := func(f faultSpec, fd int) {
		vf := &vshim.Fault{Site: f.Site, Fd: fd, K: f.K, Errno: f.Errno}
		installed = append(installed, vf)
		plan.AddFault(vf)
	}
	// faults that strike before the victim is open are armed now (no other connection is being set up)
	for _, f := range faults {
		if f.Setup == "connect" || f.Setup == "open-reply" {
			install(f, -1)
		}
	}
	victimReply := cs.F.Setup == "open-reply" || (cs.Second != nil && cs.Second.Setup == "open-reply")
	flood := strings.HasPrefix(cs.F.Setup, "flood")
	if flood {
		cs.EchoMode = "flood"
	}
	vst := &cstate{id: 0, mode: cs.EchoMode, reply: victimReply, closedCh: make(chan struct{})}
	var victim *echoer
	victimErr := error(nil)
	{
		// the victim's connect may legitimately never reach OnOpen (registration fault)
		type res struct {
			p   net.Conn
			err error
		}
		rc := make(chan res, 1)
		go func() { p, _, err := e.Connect(vst); rc <- res{p, err} }()
		var r res
		if cs.F.Class == "preopen" {
			select {
			case r = <-rc:
			case <-time.After(1500 * time.Millisecond):
				// expected: the connection was dropped before OnOpen; Connect is still waiting for it
			}
		} else {
			r = <-rc
			if r.err != nil {
				if strings.Contains(r.err.Error(), fx.ErrInfra.Error()) {
					o.infra = r.err.Error()
				} else {
					add("fault-victim-connect", "the victim could not be opened: %v", r.err)
				}
				return
			}
		}
		if r.p != nil {
			victim = &echoer{c: r.p, st: vst, gen: vio.Gen{Key: 31337}, hello: victimReply}
		}
		victimErr = r.err
	}
	vfd := int(atomic.LoadInt32(&vst.fd))
	for _, f := range faults {
		if f.Setup != "connect" && f.Setup != "open-reply" {
			install(f, vfd)
		}
	}
	allDelivered := func() bool {
		for _, f := range installed {
			if atomic.LoadInt32(&f.Delivered) == 0 {
				return false
			}
		}
		return true
	}
	// traffic: victim and bystanders in parallel
	var wg sync.WaitGroup
	var bmu sync.Mutex
	for _, b := range bys {
		wg.Add(1)
		go func(b *echoer) {
			defer wg.Done()
			for r := 0; r < 6; r++ {
				if err := b.round(100 + 37*r); err != nil {
					bmu.Lock()
					add("fault-bystander", "bystander conn%d was affected by a fault on the victim: %v (its OnClose count %d, err %v)", b.st.id, err, atomic.LoadInt32(&b.st.closes), b.st.closeErr)
					bmu.Unlock()
					return
				}
			}
		}(b)
	}
	var verr error
	if victim != nil && flood {
		// one byte makes the handler flood; the peer reads nothing for a moment
		_, _ = victim.c.Write([]byte{1})
		time.Sleep(10 * time.Millisecond)
		if cs.F.Setup == "flood-close" {
			victim.c.Close() // dies with unsent output pending
		} else {
			// now read: the flush path runs on the victim
			got := 0
			buf := make([]byte, 1<<16)
			exp := make([]byte, 1<<16)
			if victim.hello {
				// a second fault of the pair made OnOpen answer: its reply precedes the flood
				victim.hello = false
				hello := make([]byte, 5)
				_ = victim.c.SetReadDeadline(time.Now().Add(bound))
				if _, err := readFull(victim.c, hello); err != nil || string(hello) != "HELLO" {
					verr = fmt.Errorf("the reply of OnOpen did not arrive first: %q, %v", hello, err)
					got = floodSize
				}
			}
			for got < floodSize {
				_ = victim.c.SetReadDeadline(time.Now().Add(bound))
				n, err := victim.c.Read(buf)
				if n > 0 {
					vio.Fill(exp[:n], 4242, uint64(got))
					if !bytes.Equal(buf[:n], exp[:n]) {
						verr = fmt.Errorf("the flooded stream is corrupt at offset %d", got+firstDiff(buf[:n], exp[:n]))
						break
					}
					got += n
				}
				if err != nil {
					verr = fmt.Errorf("after %d of %d bytes: %v", got, floodSize, err)
					break
				}
			}
			if cs.Second != nil && cs.Second.Setup == "peer-close" {
				victim.c.Close() // the second fault of the pair strikes when the peer leaves
			}
		}
	} else if victim != nil {
		rounds := cs.F.K + 3
		if cs.Second != nil {
			rounds += cs.Second.K
		}
		for r := 0; r < rounds && verr == nil; r++ {
			sz := 64 + 13*r
			if cs.EchoMode == "writev-many" {
				sz = 1500 + 13*r
			}
			verr = victim.round(sz)
		}
		if cs.F.Setup == "peer-close" || (cs.Second != nil && cs.Second.Setup == "peer-close") {
			victim.c.Close()
		}
	}
	wg.Wait()
	o.delivered = allDelivered()
	// ---- expectations for the victim ----
	fatal := false
	for _, f := range installed {
		if atomic.LoadInt32(&f.Delivered) == 1 {
			for _, fs := range faults {
				if fs.Site == f.Site && fs.Errno == f.Errno && (fs.Class == "fatal") {
					fatal = true
				}
			}
		}
	}
	peerClosed := cs.F.Setup == "peer-close" || cs.F.Setup == "flood-close" || (cs.Second != nil && cs.Second.Setup == "peer-close")
	switch {
	case cs.F.Class == "preopen" && atomic.LoadInt32(&installed[0].Delivered) == 1:
		time.Sleep(20 * time.Millisecond)
		if n := atomic.LoadInt32(&vst.opens); n != 0 {
			add("fault-preopen", "the registration of the victim failed (%v) but OnOpen ran %d times", cs.F.Errno, n)
		}
		if n := atomic.LoadInt32(&vst.closes); n != 0 {
			add("fault-preopen", "the victim was never opened but OnClose ran %d times", n)
		}
		if cs.Cfg.Client && victim != nil && victimErr == nil {
			add("fault-preopen-result", "the registration of the victim failed (%v) but Dial/Enroll handed a connection to the caller", cs.F.Errno)
		}
	case fatal:
		select {
		case <-vst.closedCh:
			if vst.closeErr == nil {
				add("fault-close-err", "the victim was closed because of %v at %s, but OnClose reported a nil error", cs.F.Errno, cs.F.Site)
			}
		case <-time.After(bound):
			add("fault-noclose", "%v was injected at %s on the victim (delivered), but no OnClose followed within %v (peer side: %v)", cs.F.Errno, cs.F.Site, bound, verr)
		}
		if victim != nil {
			// the peer sees the connection go away
			_ = victim.c.SetReadDeadline(time.Now().Add(bound))
			var one [64]byte
			for {
				if _, err := victim.c.Read(one[:]); err != nil {
					if isTimeout(err) {
						add("fault-peer-open", "the victim's peer still has an open connection %v after the fatal fault", bound)
					}
					break
				}
			}
		}
	case peerClosed:
		select {
		case <-vst.closedCh:
		case <-time.After(bound):
			add("fault-noclose", "the victim's peer closed but no OnClose followed within %v (fault %v at %s delivered: %v)", bound, cs.F.Errno, cs.F.Site, o.delivered)
		}
	default: // transient (or not delivered): nothing is visible
		if verr != nil {
			add("fault-transient-visible", "a transient %v at %s (delivered: %v) became visible on the victim: %v (OnClose count %d, err %v)", cs.F.Errno, cs.F.Site, o.delivered, verr, atomic.LoadInt32(&vst.closes), vst.closeErr)
		} else if n := atomic.LoadInt32(&vst.closes); n != 0 {
			add("fault-transient-visible", "a transient %v at %s closed the victim (err %v)", cs.F.Errno, cs.F.Site, vst.closeErr)
		}
	}
	if n := atomic.LoadInt32(&vst.closes); n > 1 {
		add("fault-close-twice", "the victim saw %d OnClose calls", n)
	}
	// a stale asynchronous write on a closed victim completes with a closed-connection error
	if vst.gc != nil && atomic.LoadInt32(&vst.closes) == 1 {
		// new connections may take over the victim's descriptor number
		probe0, _, err := newConn(300, "write", false)
		if err == nil {
			done := make(chan error, 1)
			_ = vst.gc.AsyncWrite([]byte("POISON"), func(_ gnet.Conn, err error) error { done <- err; return nil })
			select {
			case err := <-done:
				if !errors.Is(err, net.ErrClosed) {
					add("fault-stale-write", "an AsyncWrite on the closed victim completed with %v", err)
				}
			case <-time.After(bound):
				add("fault-stale-write", "the callback of an AsyncWrite on the closed victim did not run within %v", bound)
			}
			if err := probe0.round(50); err != nil {
				add("fault-stale-write", "a fresh connection was disturbed after the stale write: %v", err)
			}
			probe0.c.Close()
		}
	}
	// the engine keeps serving: a fresh connection echoes, bystanders still echo
	if probe, _, err := newConn(200, "write", true); err != nil {
		add("fault-engine-dead", "after the fault a fresh connection could not be opened: %v", err)
	} else {
		if err := probe.round(500); err != nil {
			add("fault-engine-dead", "after the fault a fresh connection does not echo: %v", err)
		}
		probe.c.Close()
	}
	for _, b := range bys {
		if err := b.round(222); err != nil && b.dead == err {
			add("fault-bystander", "bystander conn%d no longer echoes after the fault: %v", b.st.id, err)
		}
		if n := atomic.LoadInt32(&b.st.closes); n != 0 {
			add("fault-bystander", "bystander conn%d saw OnClose (%v)", b.st.id, b.st.closeErr)
		}
		b.c.Close()
	}
	if victim != nil {
		victim.c.Close()
	}
	stop()
	for _, p := range e.Logger.Panics() {
		add("panic-logged", "%s", p)
	}
	if len(plan.BadCloses) > 0 {
		add("fault-double-close", "the framework closed descriptor(s) %v again after having closed them (ledger)", plan.BadCloses)
	}
	if len(plan.NotOpenCloses) > 0 {
		add("fault-double-close", "the framework called close(2) on descriptor number(s) %v that were not open", plan.NotOpenCloses)
	}
	if left := plan.Owned(); len(left) > 0 {
		sort.Ints(left)
		add("fault-fd-leak", "accepted descriptors %v were never closed (ledger) after the engine stopped", left)
		e.CloseAcceptedLeaks()
	}
	if len(plan.IOonClosed) > 0 {
		add("fault-io-on-closed", "system calls on a descriptor after the framework had closed it: %v", plan.IOonClosed)
	}
	o.sites = plan.Sites
	return
}

// ---- drivers ---------------------------------------------------------------------------------------

func configs() []fx.Cfg {
	var out []fx.Cfg
	for _, et := range []bool{false, true} {
		for _, rp := range []bool{false, true} {
			out = append(out, fx.Cfg{Net: "tcp4", ET: et, ReusePort: rp, Loops: 2, ReadCap: 4096, WriteCap: 4096})
		}
	}
	out = append(out, fx.Cfg{Net: "unix", Loops: 1, ReadCap: 1024, WriteCap: 1024}, fx.Cfg{Net: "unix", ET: true, Loops: 2, ReadCap: 1024, WriteCap: 1024})
	return out
}

// clientConfigs: the gnet side is a Client; its connections are dialled (Client.Dial) or enrolled
// (net.Dial + Client.Enroll) and live on the same event-loops, read/write paths and close path.
func clientConfigs() []fx.Cfg {
	return []fx.Cfg{
		{Net: "tcp4", Client: true, Loops: 2, ReadCap: 4096, WriteCap: 4096},
		{Net: "tcp4", Client: true, Enroll: true, ET: true, Loops: 2, ReadCap: 4096, WriteCap: 4096},
		{Net: "unix", Client: true, Enroll: true, Loops: 1, ReadCap: 1024, WriteCap: 1024},
		{Net: "unix", Client: true, ET: true, Loops: 2, ReadCap: 1024, WriteCap: 1024},
	}
}

func finish(st *vstat.Stats, cs caseSpec, o outcome, seenSites map[string]int) {
	st.Eval()
	if o.delivered {
		st.NonTrivial(vstat.Hash(cs.String()))
		st.Label("fault_delivered/" + cs.F.Class)
	} else {
		st.Label("fault_not_reached")
	}
	for s, n := range o.sites {
		seenSites[s] += n
	}
	if st.WantSample(o.delivered) {
		st.Sample(o.delivered, cs.String())
	}
}

// TestC18Enumerate walks the fault table: every site x errno (quick: first errno) x k x configuration.
func TestC18Enumerate(t *testing.T) { enumerate(t, "C18.enumerate", configs()) }

// TestC18Client walks the same table for connections of a Client (no accept sites; a failing
// registration must come back to Dial/Enroll as an error, never as an opened connection).
func TestC18Client(t *testing.T) { enumerate(t, "C18.client", clientConfigs()) }

func enumerate(t *testing.T, name string, cfgs []fx.Cfg) {
	st := vstat.New(name)
	defer st.Flush()
	k, n := vstat.Shard()
	maxK := 2
	full := vstat.Thorough()
	if full {
		maxK = 8
	}
	seenSites := map[string]int{}
	idx := 0
	for ci, cfg := range cfgs {
		if !full && ci >= 4 && ci%2 == 1 {
			continue
		}
		for _, f := range table(cfg, full) {
			for kk := 1; kk <= maxK; kk++ {
				if (f.Setup == "connect" || f.Setup == "open-reply" || f.Setup == "peer-close" || strings.HasPrefix(f.Setup, "flood")) && kk > 1 {
					continue // these sites are reached once per connection
				}
				idx++
				if idx%n != k {
					continue
				}
				f.K = kk
				cs := caseSpec{Cfg: cfg, F: f, EchoMode: "write", Bystanders: 2}
				if strings.Contains(f.Site, "writev") {
					cs.EchoMode = "writev"
					if strings.Contains(f.Site, "(*conn).writev") && kk%2 == 0 {
						cs.EchoMode = "writev-many"
					}
				}
				o := runFault(cs)
				if o.infra != "" {
					t.Fatalf("VERIF-INFRA %s\n%s", o.infra, cs)
				}
				if len(o.fails) > 0 && !o.delivered && !strings.Contains(strings.Join(o.fails, " "), "bystander") {
					// retry once: the fault was not reached, so the failure would be the harness's
					o = runFault(cs)
				}
				finish(st, cs, o, seenSites)
				if len(o.fails) > 0 {
					t.Fatalf("%s\ncase:\n%s", strings.Join(o.fails, "\n"), cs)
				}
			}
		}
	}
	var ss []string
	for s, c := range seenSites {
		ss = append(ss, fmt.Sprintf("%s x%d", s, c))
	}
	sort.Strings(ss)
	st.Set("syscall_sites_observed", ss)
}

// TestC18Random draws configuration, fault, k, echo mode and (sometimes) a second fault.
func TestC18Random(t *testing.T) {
	st := vstat.New("C18.random")
	defer st.Flush()
	seenSites := map[string]int{}
	rapid.Check(t, func(t *rapid.T) {
		cfg := fx.DrawCfg(t, fx.DrawOpt{MaxLoops: 4})
		cfg.RcvBuf, cfg.SndBuf = 0, 0
		tab := table(cfg, true)
		f := rapid.SampledFrom(tab).Draw(t, "fault")
		f.K = 1
		if f.Setup == "traffic" {
			f.K = rapid.IntRange(1, 6).Draw(t, "k")
		}
		cs := caseSpec{Cfg: cfg, F: f, EchoMode: rapid.SampledFrom([]string{"write", "writev", "asyncwrite"}).Draw(t, "echo"), Bystanders: rapid.IntRange(2, 4).Draw(t, "bystanders")}
		if strings.Contains(f.Site, "writev") {
			cs.EchoMode = rapid.SampledFrom([]string{"writev", "writev-many"}).Draw(t, "vector")
		} else if strings.Contains(f.Site, "(*conn).write/") && cs.EchoMode == "writev" {
			cs.EchoMode = "write"
		}
		if rapid.IntRange(0, 2).Draw(t, "pair") == 0 {
			g := rapid.SampledFrom(tab).Draw(t, "second")
			g.K = 1
			// pairs keep the first fault's expectation decidable: the second is transient or strikes at close
			if g.Class == "transient" || g.Class == "atclose" {
				if !(g.Site == f.Site) && !(g.Setup == "peer-close" && f.Class == "preopen") {
					cs.Second = &g
				}
			}
		}
		if rapid.IntRange(0, 5).Draw(t, "farewell") == 0 {
			// the first read fails, OnClose writes a good-bye, and that write fails too: still one OnClose
			cs.F = faultSpec{Site: "(*eventloop).read/read", Errno: unix.ECONNRESET, K: 1, Class: "fatal", Setup: "traffic"}
			cs.Second = &faultSpec{Site: "(*conn).write/write", Errno: unix.EPIPE, K: 1, Class: "fatal", Setup: "traffic"}
			cs.EchoMode = "farewell"
		}
		o := runFault(cs)
		if o.infra != "" {
			t.Fatalf("VERIF-INFRA %s\n%s", o.infra, cs)
		}
		finish(st, cs, o, seenSites)
		if cs.Second != nil {
			st.Label("pair_of_faults")
		}
		if cs.EchoMode == "farewell" {
			st.Label("write_inside_OnClose_fails_too")
		}
		if len(o.fails) > 0 {
			t.Fatalf("%s\ncase:\n%s", strings.Join(o.fails, "\n"), cs)
		}
	})
}

func TestMain(m *testing.M) {
	code := m.Run()
	fx.Cleanup()
	os.Exit(code)
}
