// Package fx is the engine fixture shared by the engine-level checks: it draws
// configurations, starts one real gnet engine (server via Run/Rotate, or client
// via NewClient) per generated case, establishes connections whose handler-side
// state is known to the harness, records every callback, and stops the engine.
package fx

import (
	"context"
	"errors"
	"fmt"
	"net"
	"os"
	"path/filepath"
	"runtime"
	"strconv"
	"strings"
	"sync"
	"sync/atomic"
	"time"

	"golang.org/x/sys/unix"
	"pgregory.net/rapid"

	gnet "github.com/panjf2000/gnet/v2"
)

// ---- configuration ---------------------------------------------------------------

// Cfg is one engine configuration.
type Cfg struct {
	Net       string // "tcp4", "tcp6", "unix"
	Client    bool   // the gnet side is a Client (Dial/Enroll) instead of a server
	Enroll    bool   // client side: net.Dial + Enroll instead of Client.Dial
	ET        bool
	Chunk     int // 0 = none
	Loops     int
	ReusePort bool
	LB        gnet.LoadBalancing
	ReadCap   int
	WriteCap  int
	SndBuf    int // socket send buffer of the gnet side (0 = default)
	RcvBuf    int
	Ticker    bool
	Listeners int // > 1: gnet.Rotate with that many listen addresses of the same network
	// ExtraNets: further listeners (gnet.Rotate) on other networks, e.g. udp6 next to udp4; their
	// addresses follow the Listeners ones in Engine.Addrs
	ExtraNets []string
}

func (c Cfg) String() string {
	side := "server"
	if c.Client {
		side = "client"
		if c.Enroll {
			side = "client(enroll)"
		}
	}
	mode := "LT"
	if c.ET {
		mode = "ET"
		if c.Chunk > 0 {
			mode = fmt.Sprintf("ET(chunk %d)", c.Chunk)
		}
	}
	acc := "reactor"
	if c.ReusePort {
		acc = "reuseport"
	}
	ls := ""
	if len(c.ExtraNets) > 0 {
		ls = fmt.Sprintf(" +listeners on %v", c.ExtraNets)
	}
	if c.Listeners > 1 {
		ls += fmt.Sprintf(" listeners=%d", c.Listeners)
	}
	return fmt.Sprintf("%s %s %s loops=%d %s lb=%d rcap=%d wcap=%d sndbuf=%d rcvbuf=%d ticker=%v%s", c.Net, side, mode, c.Loops, acc, c.LB, c.ReadCap, c.WriteCap, c.SndBuf, c.RcvBuf, c.Ticker, ls)
}

// HasIPv6 reports whether ::1 is usable.
var HasIPv6 = func() bool {
	l, err := net.Listen("tcp6", "[::1]:0")
	if err != nil {
		return false
	}
	l.Close()
	return true
}()

// DrawOpt restricts DrawCfg.
type DrawOpt struct {
	ServerOnly bool
	NoUnix     bool
	MaxLoops   int
	SmallSnd   bool // draw small socket send buffers and write-buffer caps (back-pressure)
}

// DrawCfg draws a configuration the code accepts.
func DrawCfg(t *rapid.T, o DrawOpt) Cfg {
	var c Cfg
	nets := []string{"tcp4", "tcp4", "unix"}
	if o.NoUnix {
		nets = []string{"tcp4", "tcp4"}
	}
	if HasIPv6 {
		nets = append(nets, "tcp6")
	}
	c.Net = rapid.SampledFrom(nets).Draw(t, "net")
	if !o.ServerOnly {
		c.Client = rapid.IntRange(0, 3).Draw(t, "side") == 0
		if c.Client {
			c.Enroll = rapid.Bool().Draw(t, "enroll")
		}
	}
	switch rapid.IntRange(0, 2).Draw(t, "iomode") {
	case 1:
		c.ET = true
	case 2:
		c.ET = true
		c.Chunk = 1 << rapid.IntRange(1, 16).Draw(t, "chunkLog2")
	}
	maxLoops := o.MaxLoops
	if maxLoops == 0 {
		maxLoops = 8
	}
	c.Loops = rapid.SampledFrom([]int{1, 1, 2, 3, 4, 8}).Filter(func(n int) bool { return n <= maxLoops }).Draw(t, "loops")
	if !c.Client && c.Net != "unix" {
		c.ReusePort = rapid.Bool().Draw(t, "reuseport")
	}
	c.LB = gnet.LoadBalancing(rapid.IntRange(0, 2).Draw(t, "lb"))
	c.ReadCap = rapid.SampledFrom([]int{1024, 2048, 4096, 65536}).Draw(t, "readCap")
	if o.SmallSnd {
		c.WriteCap = rapid.SampledFrom([]int{1024, 4096, 65536}).Draw(t, "writeCap")
		c.SndBuf = rapid.SampledFrom([]int{0, 4096, 16384}).Draw(t, "sndbuf")
	} else {
		c.WriteCap = rapid.SampledFrom([]int{1024, 65536}).Draw(t, "writeCap")
	}
	c.RcvBuf = rapid.SampledFrom([]int{0, 0, 4096, 16384}).Draw(t, "rcvbuf")
	c.Ticker = rapid.IntRange(0, 3).Draw(t, "ticker") == 0
	return c
}

// Options translates the configuration.
func (c Cfg) Options(lg *CaptureLogger) []gnet.Option {
	opts := []gnet.Option{
		gnet.WithLogger(lg),
		gnet.WithNumEventLoop(c.Loops),
		gnet.WithReadBufferCap(c.ReadCap),
		gnet.WithWriteBufferCap(c.WriteCap),
		gnet.WithLoadBalancing(c.LB),
		gnet.WithTicker(c.Ticker),
		gnet.WithReuseAddr(true),
	}
	if c.Chunk > 0 {
		opts = append(opts, gnet.WithEdgeTriggeredIOChunk(c.Chunk))
	} else if c.ET {
		opts = append(opts, gnet.WithEdgeTriggeredIO(true))
	}
	if c.ReusePort {
		opts = append(opts, gnet.WithReusePort(true))
	}
	if c.SndBuf > 0 {
		opts = append(opts, gnet.WithSocketSendBuffer(c.SndBuf))
	}
	if c.RcvBuf > 0 {
		opts = append(opts, gnet.WithSocketRecvBuffer(c.RcvBuf))
	}
	return opts
}

// ---- logger -------------------------------------------------------------------------

// CaptureLogger keeps the engine's log lines.
type CaptureLogger struct {
	mu    sync.Mutex
	lines []string
}

func (l *CaptureLogger) add(level, format string, a ...any) {
	l.mu.Lock()
	if len(l.lines) < 2000 {
		l.lines = append(l.lines, level+" "+fmt.Sprintf(format, a...))
	}
	l.mu.Unlock()
}
func (l *CaptureLogger) Debugf(f string, a ...any) {}
func (l *CaptureLogger) Infof(f string, a ...any)  {}
func (l *CaptureLogger) Warnf(f string, a ...any)  { l.add("WARN", f, a...) }
func (l *CaptureLogger) Errorf(f string, a ...any) { l.add("ERROR", f, a...) }
func (l *CaptureLogger) Fatalf(f string, a ...any) { l.add("FATAL", f, a...) }

// Lines returns the captured WARN/ERROR/FATAL lines.
func (l *CaptureLogger) Lines() []string {
	l.mu.Lock()
	defer l.mu.Unlock()
	return append([]string(nil), l.lines...)
}

// Panics returns captured lines that report a swallowed panic.
func (l *CaptureLogger) Panics() []string {
	var out []string
	for _, s := range l.Lines() {
		if strings.Contains(s, "panic") {
			out = append(out, s)
		}
	}
	return out
}

// ---- event log ----------------------------------------------------------------------

// Goid returns the current goroutine id.
func Goid() uint64 {
	var buf [64]byte
	n := runtime.Stack(buf[:], false)
	s := buf[len("goroutine "):n]
	i := 0
	for i < len(s) && s[i] != ' ' {
		i++
	}
	v, _ := strconv.ParseUint(string(s[:i]), 10, 64)
	return v
}

// Event is one recorded callback.
type Event struct {
	Seq  int64
	Goid uint64
	Loop gnet.EventLoop
	Conn int // harness id of the connection, -1 for engine-level events
	Kind string
	Note string
}

func (e Event) String() string {
	return fmt.Sprintf("#%d g%d conn%d %s %s", e.Seq, e.Goid, e.Conn, e.Kind, e.Note)
}

// Log is a concurrent event log.
type Log struct {
	mu     sync.Mutex
	events []Event
	seq    int64
}

// Add appends an event.
func (l *Log) Add(c gnet.Conn, id int, kind, note string) {
	g := Goid()
	var loop gnet.EventLoop
	if c != nil {
		loop = c.EventLoop()
	}
	l.mu.Lock()
	l.seq++
	l.events = append(l.events, Event{l.seq, g, loop, id, kind, note})
	l.mu.Unlock()
}

// Events returns a copy of the log.
func (l *Log) Events() []Event {
	l.mu.Lock()
	defer l.mu.Unlock()
	return append([]Event(nil), l.events...)
}

// Len returns the number of events.
func (l *Log) Len() int {
	l.mu.Lock()
	defer l.mu.Unlock()
	return len(l.events)
}

// ---- handler ------------------------------------------------------------------------

// ConnHooks is the per-connection handler a check supplies as connection state.
type ConnHooks interface {
	OnOpen(c gnet.Conn) ([]byte, gnet.Action)
	OnTraffic(c gnet.Conn) gnet.Action
	OnClose(c gnet.Conn, err error) gnet.Action
}

// EngineHooks are optional engine-level callbacks.
type EngineHooks struct {
	OnBoot     func(gnet.Engine) gnet.Action
	OnShutdown func(gnet.Engine)
	OnTick     func() (time.Duration, gnet.Action)
	// Unbound is called for a connection that arrives without pending state
	// (only when a check lets foreign peers connect).
	Unbound func(c gnet.Conn) ConnHooks
}

type handler struct {
	e        *Engine
	hooks    EngineHooks
	mu       sync.Mutex
	pending  ConnHooks
	opened   chan struct{}
	bootOnce sync.Once
}

func (h *handler) OnBoot(eng gnet.Engine) gnet.Action {
	h.e.Eng = eng
	act := gnet.None
	if h.hooks.OnBoot != nil {
		act = h.hooks.OnBoot(eng)
	}
	h.e.Log.Add(nil, -1, "boot", "")
	h.bootOnce.Do(func() { close(h.e.booted) })
	return act
}

func (h *handler) OnShutdown(eng gnet.Engine) {
	h.e.Log.Add(nil, -1, "shutdown", "")
	atomic.AddInt32(&h.e.Shutdowns, 1)
	if h.hooks.OnShutdown != nil {
		h.hooks.OnShutdown(eng)
	}
}

func (h *handler) OnTick() (time.Duration, gnet.Action) {
	atomic.AddInt32(&h.e.Ticks, 1)
	if h.hooks.OnTick != nil {
		return h.hooks.OnTick()
	}
	return 20 * time.Millisecond, gnet.None
}

func (h *handler) OnOpen(c gnet.Conn) ([]byte, gnet.Action) {
	st, _ := c.Context().(ConnHooks)
	if st == nil {
		h.mu.Lock()
		st = h.pending
		h.pending = nil
		ch := h.opened
		h.mu.Unlock()
		if st == nil && h.hooks.Unbound != nil {
			st = h.hooks.Unbound(c)
			ch = nil
		}
		if st == nil {
			h.e.Log.Add(c, -1, "open-unbound", "")
			return nil, gnet.Close
		}
		c.SetContext(st)
		out, act := st.OnOpen(c)
		if ch != nil {
			close(ch)
		}
		return out, act
	}
	return st.OnOpen(c)
}

func (h *handler) OnTraffic(c gnet.Conn) gnet.Action {
	st, _ := c.Context().(ConnHooks)
	if st == nil && h.hooks.Unbound != nil && c.LocalAddr() != nil && strings.HasPrefix(c.LocalAddr().Network(), "udp") {
		st = h.hooks.Unbound(c) // datagrams of a UDP listener have no OnOpen
	}
	if st == nil {
		h.e.Log.Add(c, -1, "traffic-unbound", "")
		return gnet.None
	}
	return st.OnTraffic(c)
}

func (h *handler) OnClose(c gnet.Conn, err error) gnet.Action {
	st, _ := c.Context().(ConnHooks)
	if st == nil {
		h.e.Log.Add(c, -1, "close-unbound", fmt.Sprint(err))
		return gnet.None
	}
	return st.OnClose(c, err)
}

// ---- engine -------------------------------------------------------------------------

// ErrInfra marks a fixture (not a gnet) problem.
var ErrInfra = errors.New("fixture")

// Engine is one running gnet engine (or client) plus the harness side.
type Engine struct {
	Cfg        Cfg
	Eng        gnet.Engine
	Logger     *CaptureLogger
	Log        *Log
	Addr       string   // address peers dial (server side) / the harness listener's address (client side)
	ProtoAddr  string   // what was given to Run
	Addrs      []string // all dial addresses (Rotate)
	ProtoAddrs []string
	Shutdowns  int32
	Ticks      int32

	h       *handler
	booted  chan struct{}
	done    chan error
	cli     *gnet.Client
	ln      net.Listener // client side: the plain peer listener
	dir     string
	connMu  sync.Mutex
	stopped bool
	dialSeq int64
}

var (
	portMu   sync.Mutex
	nextPort = 15000 + (os.Getpid()*131)%30000
	sockSeq  int64
	tmpDir   string
	tmpOnce  sync.Once
)

// Concurrently running test processes (shards of one check, other checks) must never
// listen on the same host:port: all of them share [::1], and with SO_REUSEPORT two
// unrelated engines bound to one port would share incoming connections. Every process
// therefore claims a slot (an advisory lock on a file, released by the kernel when the
// process ends) and allocates ports only from the slot's own range below the
// ephemeral range.
const (
	slotCount = 64
	slotPorts = 350
	slotBase  = 10000
)

var (
	slot     = -1
	slotFile *os.File
	slotOnce sync.Once
	slotSeq  int
)

func claimSlot() {
	dir := filepath.Join(os.TempDir(), "verif-fx-slots")
	_ = os.MkdirAll(dir, 0o777)
	for n := 0; n < slotCount; n++ {
		k := (os.Getpid() + n) % slotCount
		f, err := os.OpenFile(filepath.Join(dir, strconv.Itoa(k)), os.O_CREATE|os.O_RDWR, 0o666)
		if err != nil {
			continue
		}
		if unix.Flock(int(f.Fd()), unix.LOCK_EX|unix.LOCK_NB) == nil {
			slot, slotFile = k, f
			return
		}
		f.Close()
	}
}

func allocPort() int {
	slotOnce.Do(claimSlot)
	portMu.Lock()
	defer portMu.Unlock()
	if slot >= 0 {
		slotSeq++
		return slotBase + slot*slotPorts + slotSeq%slotPorts
	}
	nextPort++
	if nextPort > 60000 {
		nextPort = 15000
	}
	return nextPort
}

func sockPath(tag string) string {
	tmpOnce.Do(func() {
		d, err := os.MkdirTemp("", "vfx")
		if err != nil {
			panic(err)
		}
		tmpDir = d
	})
	return filepath.Join(tmpDir, fmt.Sprintf("%s%d.sock", tag, atomic.AddInt64(&sockSeq, 1)))
}

// TmpDir returns the per-process scratch directory (removed by Cleanup).
func TmpDir() string { sockPath("x"); return tmpDir }

// Cleanup removes the scratch directory; call from TestMain or at test end.
func Cleanup() {
	if tmpDir != "" {
		os.RemoveAll(tmpDir)
	}
}

// hostFor: every test process listens on its own 127.x.y.z address, so that ports
// can never collide with a concurrently running shard (with SO_REUSEPORT two
// unrelated engines would otherwise share connections). IPv6 has only ::1.
func hostFor(netw string) string {
	if netw == "tcp6" || netw == "udp6" {
		return "[::1]"
	}
	p := os.Getpid()
	return fmt.Sprintf("127.%d.%d.%d", 1+(p>>16)%120, (p>>8)&0xff, p&0xff)
}

// Host returns the loop-back host used for a network by this process.
func Host(netw string) string { return hostFor(netw) }

// portFree reports whether nobody listens on host:port (probe without reuse flags).
func portFree(netw, addr string) bool {
	if strings.HasPrefix(netw, "udp") {
		c, err := net.ListenPacket(netw, addr)
		if err != nil {
			return false
		}
		c.Close()
		return true
	}
	l, err := net.Listen(netw, addr)
	if err != nil {
		return false
	}
	l.Close()
	return true
}

// FreeAddr picks a free host:port for this process.
func FreeAddr(netw string) string {
	for i := 0; i < 200; i++ {
		a := fmt.Sprintf("%s:%d", hostFor(netw), allocPort())
		if portFree(netw, a) {
			return a
		}
	}
	return fmt.Sprintf("%s:%d", hostFor(netw), allocPort())
}

// StartAt is Start with an explicit listen host (e.g. "[::1%lo]") for a tcp network.
func StartAt(cfg Cfg, hooks EngineHooks, netw, host string) (*Engine, error) {
	cfg.Net = netw
	return start(cfg, hooks, host)
}

// Start launches an engine for cfg.
func Start(cfg Cfg, hooks EngineHooks) (*Engine, error) { return start(cfg, hooks, "") }

func start(cfg Cfg, hooks EngineHooks, hostOverride string) (*Engine, error) {
	for try := 0; ; try++ {
		e := &Engine{Cfg: cfg, Logger: &CaptureLogger{}, Log: &Log{}, booted: make(chan struct{}), done: make(chan error, 1)}
		e.h = &handler{e: e, hooks: hooks}
		opts := cfg.Options(e.Logger)
		if cfg.Client {
			cli, err := gnet.NewClient(e.h, opts...)
			if err != nil {
				return nil, fmt.Errorf("%w: NewClient: %v", ErrInfra, err)
			}
			if err := cli.Start(); err != nil {
				return nil, fmt.Errorf("%w: Client.Start: %v", ErrInfra, err)
			}
			e.cli = cli
			// the plain peer the client talks to
			var ln net.Listener
			var err2 error
			if cfg.Net == "unix" {
				ln, err2 = net.Listen("unix", sockPath("peer"))
			} else {
				ln, err2 = net.Listen(cfg.Net, hostFor(cfg.Net)+":0")
			}
			if err2 != nil {
				_ = cli.Stop()
				return nil, fmt.Errorf("%w: peer listener: %v", ErrInfra, err2)
			}
			e.ln = ln
			e.Addr = ln.Addr().String()
			return e, nil
		}
		var dial string
		if cfg.Net == "unix" {
			dial = sockPath("srv")
			e.ProtoAddr = "unix://" + dial
		} else {
			dial = FreeAddr(cfg.Net)
			if hostOverride != "" {
				for i := 0; i < 100; i++ {
					dial = fmt.Sprintf("%s:%d", hostOverride, allocPort())
					if portFree(cfg.Net, dial) {
						break
					}
				}
			}
			e.ProtoAddr = cfg.Net + "://" + dial
		}
		e.Addr = dial
		e.Addrs, e.ProtoAddrs = []string{dial}, []string{e.ProtoAddr}
		for i := 1; i < cfg.Listeners; i++ {
			var d, pa string
			if cfg.Net == "unix" {
				d = sockPath("srv")
				pa = "unix://" + d
			} else {
				d = FreeAddr(cfg.Net)
				pa = cfg.Net + "://" + d
			}
			e.Addrs = append(e.Addrs, d)
			e.ProtoAddrs = append(e.ProtoAddrs, pa)
		}
		for _, xn := range cfg.ExtraNets {
			d := FreeAddr(xn)
			e.Addrs = append(e.Addrs, d)
			e.ProtoAddrs = append(e.ProtoAddrs, xn+"://"+d)
		}
		if cfg.Listeners > 1 || len(cfg.ExtraNets) > 0 {
			go func() { e.done <- gnet.Rotate(e.h, e.ProtoAddrs, opts...) }()
		} else {
			go func() { e.done <- gnet.Run(e.h, e.ProtoAddr, opts...) }()
		}
		select {
		case <-e.booted:
			// Run may still fail after OnBoot (listener set-up of further loops); give
			// the acceptors a moment by probing with a connect in Connect itself.
			return e, nil
		case err := <-e.done:
			select {
			case <-e.booted: // OnBoot ran and Run has already returned (Shutdown from OnBoot)
				e.done <- err
				return e, nil
			default:
			}
			if try < 30 && err != nil && (strings.Contains(err.Error(), "address already in use") || strings.Contains(err.Error(), "bind")) {
				continue
			}
			return nil, fmt.Errorf("%w: Run returned before OnBoot: %v", ErrInfra, err)
		case <-time.After(20 * time.Second):
			return nil, fmt.Errorf("%w: engine did not boot within 20s", ErrInfra)
		}
	}
}

// Client returns the gnet client (client-side configurations).
func (e *Engine) Client() *gnet.Client { return e.cli }

// Done is closed over when Run returned; it yields Run's error.
func (e *Engine) Done() <-chan error { return e.done }

// Connect establishes one connection whose gnet-side state is st. It returns
// the harness peer's end. Connections are established one at a time.
func (e *Engine) Connect(st ConnHooks) (net.Conn, gnet.Conn, error) {
	e.connMu.Lock()
	defer e.connMu.Unlock()
	netw := e.Cfg.Net
	if netw == "unix" {
		netw = "unix"
	}
	if e.Cfg.Client {
		type res struct {
			c   gnet.Conn
			err error
		}
		rc := make(chan res, 1)
		go func() {
			if e.Cfg.Enroll {
				nc, err := net.Dial(netw, e.Addr)
				if err != nil {
					rc <- res{nil, err}
					return
				}
				c, err := e.cli.EnrollContext(nc, st)
				rc <- res{c, err}
				return
			}
			c, err := e.cli.DialContext(netw, e.Addr, st)
			rc <- res{c, err}
		}()
		if d, ok := e.ln.(interface{ SetDeadline(time.Time) error }); ok {
			_ = d.SetDeadline(time.Now().Add(15 * time.Second))
		}
		peer, err := e.ln.Accept()
		if err != nil {
			return nil, nil, fmt.Errorf("%w: peer accept: %v", ErrInfra, err)
		}
		select {
		case r := <-rc:
			if r.err != nil {
				peer.Close()
				return nil, nil, fmt.Errorf("client dial/enroll: %v", r.err)
			}
			return peer, r.c, nil
		case <-time.After(15 * time.Second):
			peer.Close()
			return nil, nil, fmt.Errorf("%w: client Dial/Enroll did not return within 15s", ErrInfra)
		}
	}
	ch := make(chan struct{})
	e.h.mu.Lock()
	e.h.pending = st
	e.h.opened = ch
	e.h.mu.Unlock()
	var peer net.Conn
	var err error
	addr := e.Addr
	if len(e.Addrs) > 1 {
		addr = e.Addrs[int(atomic.AddInt64(&e.dialSeq, 1))%len(e.Addrs)]
	}
	for try := 0; try < 50; try++ {
		peer, err = net.DialTimeout(netw, addr, 5*time.Second)
		if err == nil {
			break
		}
		select {
		case rerr := <-e.done:
			e.done <- rerr
			return nil, nil, fmt.Errorf("%w: engine exited while connecting: %v", ErrInfra, rerr)
		default:
		}
		time.Sleep(2 * time.Millisecond)
	}
	if err != nil {
		return nil, nil, fmt.Errorf("%w: dial %s: %v", ErrInfra, e.Addr, err)
	}
	select {
	case <-ch:
		return peer, nil, nil
	case <-time.After(15 * time.Second):
		peer.Close()
		return nil, nil, fmt.Errorf("no OnOpen within 15s of a successful connect to %s", e.Addr)
	}
}

// ConnectWith is Connect for server-side engines with a caller-supplied dial function.
func (e *Engine) ConnectWith(st ConnHooks, dial func() (net.Conn, error)) (net.Conn, error) {
	e.connMu.Lock()
	defer e.connMu.Unlock()
	ch := make(chan struct{})
	e.h.mu.Lock()
	e.h.pending = st
	e.h.opened = ch
	e.h.mu.Unlock()
	peer, err := dial()
	if err != nil {
		e.h.mu.Lock()
		e.h.pending, e.h.opened = nil, nil
		e.h.mu.Unlock()
		return nil, fmt.Errorf("%w: dial: %v", ErrInfra, err)
	}
	select {
	case <-ch:
		return peer, nil
	case <-time.After(15 * time.Second):
		peer.Close()
		return nil, fmt.Errorf("no OnOpen within 15s of a successful connect")
	}
}

// Stop shuts the engine down and waits for Run / Client.Stop to return.
func (e *Engine) Stop() error {
	if e.stopped {
		return nil
	}
	e.stopped = true
	if e.Cfg.Client {
		errc := make(chan error, 1)
		go func() { errc <- e.cli.Stop() }()
		var err error
		select {
		case err = <-errc:
		case <-time.After(30 * time.Second):
			err = fmt.Errorf("Client.Stop did not return within 30s")
		}
		e.ln.Close()
		return err
	}
	go func() { _ = e.Eng.Stop(context.Background()) }()
	select {
	case err := <-e.done:
		e.done <- err
		return err
	case <-time.After(30 * time.Second):
		return fmt.Errorf("Run did not return within 30s of Engine.Stop")
	}
}

// WaitDone waits for Run to return by itself (shutdown requested from inside).
func (e *Engine) WaitDone(d time.Duration) (error, bool) {
	select {
	case err := <-e.done:
		e.done <- err
		e.stopped = true
		return err, true
	case <-time.After(d):
		return nil, false
	}
}

// ---- descriptor table helpers ------------------------------------------------------------

// FdTable maps every open descriptor of the process to what it refers to.
func FdTable() map[int]string {
	out := map[int]string{}
	ents, err := os.ReadDir("/proc/self/fd")
	if err != nil {
		return out
	}
	for _, e := range ents {
		n, err := strconv.Atoi(e.Name())
		if err != nil {
			continue
		}
		if l, err := os.Readlink("/proc/self/fd/" + e.Name()); err == nil {
			out[n] = l
		}
	}
	return out
}

func fdInteresting(target string) bool {
	return strings.HasPrefix(target, "socket:") || strings.Contains(target, "eventpoll") || strings.Contains(target, "eventfd")
}

// Leaked returns the sockets / epoll / eventfd descriptors that are open now and
// were not open in `before`; it waits up to `wait` for the table to settle (the
// Go runtime closes the harness's own sockets asynchronously).
func Leaked(before map[int]string, wait time.Duration) (desc []string, fds []int) {
	deadline := time.Now().Add(wait)
	for {
		desc, fds = desc[:0], fds[:0]
		now := FdTable()
		for fd, target := range now {
			if fdInteresting(target) && before[fd] != target {
				desc = append(desc, fmt.Sprintf("%d -> %s", fd, target))
				fds = append(fds, fd)
			}
		}
		if len(desc) == 0 || time.Now().After(deadline) {
			return
		}
		time.Sleep(5 * time.Millisecond)
	}
}

// CloseAcceptedLeaks closes sockets that are still open after the engine has
// stopped and whose *local* address is one of the engine's listen addresses, i.e.
// sockets the engine accepted and never closed (the harness only owns the
// connecting ends, so nothing it or the Go runtime owns is touched). Hygiene for
// long test processes; it returns the number closed and gives no verdict.
func (e *Engine) CloseAcceptedLeaks() int {
	if e.Cfg.Client {
		return 0
	}
	want := map[string]bool{}
	for _, a := range e.Addrs {
		want[a] = true
	}
	n := 0
	for fd, target := range FdTable() {
		if !strings.HasPrefix(target, "socket:") {
			continue
		}
		sa, err := unix.Getsockname(fd)
		if err != nil {
			continue
		}
		if _, err := unix.Getpeername(fd); err != nil {
			continue // a listener or an unconnected socket
		}
		var local string
		switch a := sa.(type) {
		case *unix.SockaddrInet4:
			local = fmt.Sprintf("%s:%d", net.IP(a.Addr[:]).String(), a.Port)
		case *unix.SockaddrInet6:
			local = fmt.Sprintf("[%s]:%d", net.IP(a.Addr[:]).String(), a.Port)
		case *unix.SockaddrUnix:
			local = a.Name
		}
		if want[local] {
			_ = unix.Close(fd)
			n++
		}
	}
	return n
}

// GnetStacks returns the stacks of all goroutines that are inside framework code
// (diagnostics for a hang).
func GnetStacks() string {
	buf := make([]byte, 1<<20)
	n := runtime.Stack(buf, true)
	var out []string
	for _, g := range strings.Split(string(buf[:n]), "\n\n") {
		if strings.Contains(g, "panjf2000/gnet/v2.") || strings.Contains(g, "gnet/v2/pkg/") {
			lines := strings.Split(g, "\n")
			if len(lines) > 24 {
				lines = lines[:24]
			}
			out = append(out, strings.Join(lines, "\n"))
		}
	}
	return strings.Join(out, "\n\n")
}
