// Package vio provides scripted io.Reader / io.Writer implementations that
// exercise everything the io contracts permit (short transfers, data together
// with EOF or an error, (0,nil) reads, scratch use of the whole buffer) and
// nothing they forbid, plus deterministic content generation.
package vio

import (
	"errors"
	"fmt"
	"io"
	"strings"

	"pgregory.net/rapid"
)

// ErrScripted is the non-EOF error scripted readers and writers return.
var ErrScripted = errors.New("scripted i/o failure")

// Gen produces a deterministic, position-dependent byte stream: byte i is a
// function of (key, i), so a lost, duplicated or reordered byte misaligns
// everything after it.
type Gen struct {
	Key uint64
	Pos uint64
}

func mix(x uint64) uint64 {
	x += 0x9e3779b97f4a7c15
	x = (x ^ (x >> 30)) * 0xbf58476d1ce4e5b9
	x = (x ^ (x >> 27)) * 0x94d049bb133111eb
	return x ^ (x >> 31)
}

// ByteAt returns byte i of the stream keyed by key.
func ByteAt(key, i uint64) byte {
	return byte(mix(key+i/8) >> (8 * (i % 8)))
}

// Fill writes stream bytes [pos, pos+len(p)) of key into p.
func Fill(p []byte, key, pos uint64) {
	for i := range p {
		p[i] = ByteAt(key, pos+uint64(i))
	}
}

// Next returns the next n bytes of the stream.
func (g *Gen) Next(n int) []byte {
	p := make([]byte, n)
	Fill(p, g.Key, g.Pos)
	g.Pos += uint64(n)
	return p
}

// Step is one scripted Read or Write call.
type Step struct {
	N   int // bytes to transfer (capped by the offered buffer)
	Err int // 0 nil, 1 io.EOF (readers) / io.ErrShortWrite (writers), 2 ErrScripted
}

func (s Step) String() string {
	e := [...]string{"", "+EOF", "+ERR"}[s.Err]
	return fmt.Sprintf("%d%s", s.N, e)
}

// Reader is a scripted io.Reader. After the script it returns (0, io.EOF).
type Reader struct {
	Steps    []Step
	Src      *Gen   // content source
	Scribble bool   // use the unused part of p as scratch space (permitted by io.Reader)
	Got      []byte // every byte returned so far
	Calls    int
	ZeroLen  int // calls with len(p)==0
	Last     int // outcome of the last call: 0 nil, 1 io.EOF, 2 ErrScripted
	i        int
}

func (r *Reader) Read(p []byte) (int, error) {
	r.Calls++
	if len(p) == 0 {
		r.ZeroLen++
		r.Last = 0
		return 0, nil
	}
	if r.i >= len(r.Steps) {
		if r.Scribble {
			for i := range p {
				p[i] = 0xEE
			}
		}
		r.Last = 1
		return 0, io.EOF
	}
	st := r.Steps[r.i]
	r.i++
	r.Last = st.Err
	n := st.N
	if n > len(p) {
		n = len(p)
	}
	b := r.Src.Next(n)
	copy(p, b)
	r.Got = append(r.Got, b...)
	if r.Scribble {
		for i := n; i < len(p); i++ {
			p[i] = 0xEE
		}
	}
	switch st.Err {
	case 1:
		return n, io.EOF
	case 2:
		return n, ErrScripted
	}
	return n, nil
}

// EndsWithError reports whether the last call returned the scripted non-EOF
// error (which a ReadFrom must hand back to its caller; EOF becomes nil).
func (r *Reader) EndsWithError() bool { return r.Last == 2 }

func (r *Reader) String() string {
	var sb strings.Builder
	sb.WriteString("reader[")
	for i, s := range r.Steps {
		if i > 0 {
			sb.WriteByte(' ')
		}
		sb.WriteString(s.String())
	}
	if r.Scribble {
		sb.WriteString(" scribble")
	}
	sb.WriteString("]")
	return sb.String()
}

// Writer is a scripted io.Writer. After the script it accepts everything.
type Writer struct {
	Steps    []Step
	Offered  [][]byte // copy of every p offered
	Accepted []byte   // the bytes accepted so far
	Failed   bool     // a step returned an error or was short
	Calls    int
	i        int
}

func (w *Writer) Write(p []byte) (int, error) {
	w.Calls++
	w.Offered = append(w.Offered, append([]byte(nil), p...))
	if w.i >= len(w.Steps) {
		w.Accepted = append(w.Accepted, p...)
		return len(p), nil
	}
	st := w.Steps[w.i]
	w.i++
	n := st.N
	if n > len(p) {
		n = len(p)
	}
	w.Accepted = append(w.Accepted, p[:n]...)
	var err error
	switch st.Err {
	case 1:
		err = io.ErrShortWrite
	case 2:
		err = ErrScripted
	}
	if n < len(p) && err == nil {
		err = io.ErrShortWrite // an io.Writer must report a short write
	}
	if err != nil {
		w.Failed = true
	}
	return n, err
}

func (w *Writer) String() string {
	var sb strings.Builder
	sb.WriteString("writer[")
	for i, s := range w.Steps {
		if i > 0 {
			sb.WriteByte(' ')
		}
		sb.WriteString(s.String())
	}
	sb.WriteString("]")
	return sb.String()
}

// ---- generators ---------------------------------------------------------------

// Size draws a size biased towards the given boundaries (each b: b-1, b, b+1),
// small values, and log-uniform values up to max.
func Size(t *rapid.T, label string, max int, bounds ...int) int {
	var cand []int
	for _, b := range bounds {
		for d := -1; d <= 1; d++ {
			if v := b + d; v >= 0 && v <= max {
				cand = append(cand, v)
			}
		}
	}
	k := rapid.IntRange(0, 9).Draw(t, label+"#kind")
	switch {
	case k <= 3 && len(cand) > 0:
		return rapid.SampledFrom(cand).Draw(t, label)
	case k <= 5:
		hi := 8
		if hi > max {
			hi = max
		}
		return rapid.IntRange(0, hi).Draw(t, label)
	case k <= 7:
		// log-uniform
		bitsN := 0
		for (1 << bitsN) < max {
			bitsN++
		}
		e := rapid.IntRange(0, bitsN).Draw(t, label+"#exp")
		hi := 1 << e
		if hi > max {
			hi = max
		}
		return rapid.IntRange(hi/2, hi).Draw(t, label)
	default:
		return rapid.IntRange(0, max).Draw(t, label)
	}
}

// ReaderScript draws a reader script. total bounds the bytes it can return.
func ReaderScript(t *rapid.T, label string, src *Gen, maxStep int, bounds ...int) *Reader {
	n := rapid.IntRange(0, 6).Draw(t, label+"#steps")
	r := &Reader{Src: src, Scribble: rapid.Bool().Draw(t, label+"#scribble")}
	zeros := 0
	for i := 0; i < n; i++ {
		sz := Size(t, label+"#n", maxStep, bounds...)
		if sz == 0 {
			zeros++
			if zeros > 2 {
				sz = 1
			}
		}
		e := 0
		if i == n-1 {
			e = rapid.SampledFrom([]int{0, 0, 1, 1, 2}).Draw(t, label+"#err")
		} else if rapid.IntRange(0, 9).Draw(t, label+"#mid") == 0 {
			e = rapid.SampledFrom([]int{1, 2}).Draw(t, label+"#err")
		}
		r.Steps = append(r.Steps, Step{N: sz, Err: e})
		if e != 0 {
			break
		}
	}
	return r
}

// WriterScript draws a writer script.
func WriterScript(t *rapid.T, label string, maxStep int, bounds ...int) *Writer {
	n := rapid.IntRange(0, 4).Draw(t, label+"#steps")
	w := &Writer{}
	for i := 0; i < n; i++ {
		sz := Size(t, label+"#n", maxStep, bounds...)
		e := rapid.SampledFrom([]int{0, 0, 0, 1, 2}).Draw(t, label+"#err")
		w.Steps = append(w.Steps, Step{N: sz, Err: e})
	}
	return w
}
