// C09 — ring.Buffer behaves as an unbounded FIFO byte queue.
package c09

import (
	"strings"
	"testing"

	"pgregory.net/rapid"

	"github.com/panjf2000/gnet/v2/pkg/buffer/ring"
	"github.com/panjf2000/gnet/v2/verifx/ringm"
	"github.com/panjf2000/gnet/v2/verifx/vio"
	"github.com/panjf2000/gnet/v2/verifx/vstat"
)

func finish(st *vstat.Stats, m *ringm.Machine) {
	st.Eval()
	nt := m.Wrapped || m.Grew || m.Full
	if nt {
		st.NonTrivial(vstat.Hash(strings.Join(m.Hist, ";")))
	}
	if m.Wrapped {
		st.Label("wrapped")
	}
	if m.Grew {
		st.Label("grew")
	}
	if m.Full {
		st.Label("exactly_full")
	}
	if !nt {
		st.Label("trivial")
	}
	if st.WantSample(nt) {
		st.Sample(nt, strings.Join(m.Hist, "; "))
	}
}

func TestC09Machine(t *testing.T) {
	st := vstat.New("C09.machine")
	defer st.Flush()
	rapid.Check(t, func(t *rapid.T) {
		init := rapid.SampledFrom(ringm.InitSizes).Draw(t, "newSize")
		m := &ringm.Machine{RB: ring.New(init), Gen: vio.Gen{Key: uint64(init)*7919 + 17}, Prefix: "ring-"}
		m.LastCap = m.RB.Cap()
		m.Logf("New(%d)", init)
		defer finish(st, m)
		t.Repeat(m.Actions(9000))
	})
}

// Small-capacity variant: sizes stay tiny so that wrap-around, exact fullness
// and growth from 2/4/8 bytes dominate.
func TestC09Small(t *testing.T) {
	st := vstat.New("C09.small")
	defer st.Flush()
	rapid.Check(t, func(t *rapid.T) {
		init := rapid.SampledFrom([]int{1, 2, 3, 4, 8}).Draw(t, "newSize")
		m := &ringm.Machine{RB: ring.New(init), Gen: vio.Gen{Key: 99}, Prefix: "ring-"}
		m.LastCap = m.RB.Cap()
		m.Logf("New(%d)", init)
		defer finish(st, m)
		t.Repeat(m.Actions(12))
	})
}

// FuzzC09Ring drives the same state machine from the native coverage-guided
// fuzzer (thorough tier): the fuzz input is rapid's bit stream.
func FuzzC09Ring(f *testing.F) {
	st := vstat.New("C09.fuzz")
	f.Fuzz(rapid.MakeFuzz(func(t *rapid.T) {
		init := rapid.SampledFrom(ringm.InitSizes).Draw(t, "newSize")
		m := &ringm.Machine{RB: ring.New(init), Gen: vio.Gen{Key: uint64(init)*7919 + 17}, Prefix: "ring-"}
		m.LastCap = m.RB.Cap()
		m.Logf("New(%d)", init)
		defer st.Eval()
		t.Repeat(m.Actions(9000))
	}))
}
