// C09 — ring.Buffer behaves as an unbounded FIFO byte queue.
package c09

import (
	"bytes"
	"errors"
	"fmt"
	"strings"
	"testing"

	"pgregory.net/rapid"

	"github.com/panjf2000/gnet/v2/pkg/buffer/ring"
	"github.com/panjf2000/gnet/v2/verifx/vio"
	"github.com/panjf2000/gnet/v2/verifx/vstat"
)

// machine couples a ring.Buffer with its byte-slice reference model.
type machine struct {
	rb    *ring.Buffer
	model []byte
	gen   vio.Gen
	hist  []string
	// observations for the non-trivial rule
	wrapped, grew, full bool
	lastCap             int
}

func (m *machine) logf(format string, a ...any) { m.hist = append(m.hist, fmt.Sprintf(format, a...)) }

func (m *machine) bounds() []int {
	c := m.rb.Cap()
	return []int{m.rb.Available(), c, m.rb.Buffered(), 512, 4096, 1024}
}

type failer interface {
	Fatalf(format string, args ...any)
}

func (m *machine) fail(t failer, key, format string, a ...any) {
	t.Fatalf("VERIF-KEY:%s %s\nhistory: %s", key, fmt.Sprintf(format, a...), strings.Join(m.hist, "; "))
}

// invariant: content, counters and flags agree with the model after every step.
func (m *machine) invariant(t failer) {
	rb := m.rb
	if g, w := rb.Buffered(), len(m.model); g != w {
		m.fail(t, "ring-buffered", "Buffered() = %d, model holds %d bytes", g, w)
	}
	if rb.Buffered()+rb.Available() != rb.Cap() {
		m.fail(t, "ring-avail", "Buffered %d + Available %d != Cap %d", rb.Buffered(), rb.Available(), rb.Cap())
	}
	if rb.IsEmpty() != (len(m.model) == 0) {
		m.fail(t, "ring-isempty", "IsEmpty() = %v with %d bytes in the model", rb.IsEmpty(), len(m.model))
	}
	if rb.Cap() > 0 && rb.IsFull() != (len(m.model) == rb.Cap()) {
		m.fail(t, "ring-isfull", "IsFull() = %v with %d bytes, Cap %d", rb.IsFull(), len(m.model), rb.Cap())
	}
	head, tail := rb.Peek(-1)
	if got := append(append([]byte(nil), head...), tail...); !bytes.Equal(got, m.model) {
		m.fail(t, "ring-content", "content differs from the model: have %d bytes, want %d; first difference at %d", len(got), len(m.model), firstDiff(got, m.model))
	}
	if len(tail) > 0 {
		m.wrapped = true
	}
	if rb.Cap() != m.lastCap {
		if m.lastCap != 0 || rb.Cap() != 0 {
			m.grew = m.grew || rb.Cap() > m.lastCap && len(m.hist) > 1
		}
		m.lastCap = rb.Cap()
	}
	if rb.Cap() > 0 && len(m.model) == rb.Cap() {
		m.full = true
	}
}

func firstDiff(a, b []byte) int {
	n := len(a)
	if len(b) < n {
		n = len(b)
	}
	for i := 0; i < n; i++ {
		if a[i] != b[i] {
			return i
		}
	}
	return n
}

var initSizes = []int{0, 1, 2, 3, 4, 8, 16, 64, 1023, 1024, 4095, 4096, 4097, 5000}

func (m *machine) actions(maxSize int) map[string]func(*rapid.T) {
	size := func(t *rapid.T, label string) int { return vio.Size(t, label, maxSize, m.bounds()...) }
	return map[string]func(*rapid.T){
		"": func(t *rapid.T) { m.invariant(t) },
		"Write": func(t *rapid.T) {
			n := size(t, "n")
			data := m.gen.Next(n)
			str := rapid.Bool().Draw(t, "asString")
			m.logf("Write(%d)", n)
			var got int
			var err error
			if str {
				got, err = m.rb.WriteString(string(data))
			} else {
				got, err = m.rb.Write(data)
			}
			if got != n || err != nil {
				m.fail(t, "ring-write", "Write of %d bytes returned (%d, %v)", n, got, err)
			}
			m.model = append(m.model, data...)
		},
		"WriteByte": func(t *rapid.T) {
			k := rapid.IntRange(1, 3).Draw(t, "times")
			for i := 0; i < k; i++ {
				b := m.gen.Next(1)
				m.logf("WriteByte")
				if err := m.rb.WriteByte(b[0]); err != nil {
					m.fail(t, "ring-writebyte", "WriteByte returned %v", err)
				}
				m.model = append(m.model, b[0])
			}
		},
		"Read": func(t *rapid.T) {
			k := size(t, "k")
			p := make([]byte, k)
			m.logf("Read(%d)", k)
			n, err := m.rb.Read(p)
			want := k
			if want > len(m.model) {
				want = len(m.model)
			}
			switch {
			case k == 0:
				if n != 0 || err != nil {
					m.fail(t, "ring-read0", "Read(empty slice) = (%d, %v)", n, err)
				}
			case len(m.model) == 0:
				if n != 0 || err == nil {
					m.fail(t, "ring-read-empty", "Read on an empty buffer = (%d, %v), want (0, error)", n, err)
				}
			default:
				if n != want || err != nil {
					m.fail(t, "ring-read", "Read(%d) with %d buffered = (%d, %v), want (%d, nil)", k, len(m.model), n, err, want)
				}
				if !bytes.Equal(p[:n], m.model[:n]) {
					m.fail(t, "ring-read-data", "Read(%d) returned wrong bytes (first difference at %d)", k, firstDiff(p[:n], m.model[:n]))
				}
			}
			m.model = m.model[n:]
		},
		"ReadByte": func(t *rapid.T) {
			m.logf("ReadByte")
			b, err := m.rb.ReadByte()
			if len(m.model) == 0 {
				if err == nil {
					m.fail(t, "ring-readbyte-empty", "ReadByte on an empty buffer returned %d, nil", b)
				}
				return
			}
			if err != nil || b != m.model[0] {
				m.fail(t, "ring-readbyte", "ReadByte = (%d, %v), want (%d, nil)", b, err, m.model[0])
			}
			m.model = m.model[1:]
		},
		"Peek": func(t *rapid.T) {
			n := size(t, "n")
			if rapid.IntRange(0, 9).Draw(t, "neg") == 0 {
				n = -n
			}
			m.logf("Peek(%d)", n)
			head, tail := m.rb.Peek(n)
			want := len(m.model)
			if n > 0 && n < want {
				want = n
			}
			got := append(append([]byte(nil), head...), tail...)
			if !bytes.Equal(got, m.model[:want]) {
				m.fail(t, "ring-peek", "Peek(%d) with %d buffered returned %d+%d bytes, want the first %d (first difference at %d)", n, len(m.model), len(head), len(tail), want, firstDiff(got, m.model[:want]))
			}
		},
		"Discard": func(t *rapid.T) {
			n := size(t, "n")
			if rapid.IntRange(0, 9).Draw(t, "neg") == 0 {
				n = -n
			}
			m.logf("Discard(%d)", n)
			d, err := m.rb.Discard(n)
			want := 0
			if n > 0 {
				want = n
				if want > len(m.model) {
					want = len(m.model)
				}
			}
			if d != want || err != nil {
				m.fail(t, "ring-discard", "Discard(%d) with %d buffered = (%d, %v), want (%d, nil)", n, len(m.model), d, err, want)
			}
			m.model = m.model[want:]
		},
		"Bytes": func(t *rapid.T) {
			m.logf("Bytes")
			b := m.rb.Bytes()
			if !bytes.Equal(b, m.model) {
				m.fail(t, "ring-bytes", "Bytes() returned %d bytes, model holds %d (first difference at %d)", len(b), len(m.model), firstDiff(b, m.model))
			}
			// the copy must be independent of the buffer
			for i := range b {
				b[i] ^= 0xff
			}
		},
		"ReadFrom": func(t *rapid.T) {
			r := vio.ReaderScript(t, "reader", &m.gen, maxSize, m.bounds()...)
			m.logf("ReadFrom(%s)", r)
			n, err := m.rb.ReadFrom(r)
			if n != int64(len(r.Got)) {
				m.fail(t, "ring-readfrom-count", "ReadFrom reported %d bytes, the reader returned %d", n, len(r.Got))
			}
			if r.EndsWithError() {
				if !errors.Is(err, vio.ErrScripted) {
					m.fail(t, "ring-readfrom-err", "ReadFrom returned %v, the reader failed with %v", err, vio.ErrScripted)
				}
			} else if err != nil {
				m.fail(t, "ring-readfrom-err", "ReadFrom returned %v after a clean EOF", err)
			}
			m.model = append(m.model, r.Got...)
		},
		"WriteTo": func(t *rapid.T) {
			w := vio.WriterScript(t, "writer", maxSize, m.bounds()...)
			m.logf("WriteTo(%s)", w)
			before := len(m.model)
			n, err := m.rb.WriteTo(w)
			if before == 0 {
				if n != 0 || len(w.Accepted) != 0 {
					m.fail(t, "ring-writeto-empty", "WriteTo on an empty buffer = (%d, %v), writer got %d bytes", n, err, len(w.Accepted))
				}
				return
			}
			if n != int64(len(w.Accepted)) {
				m.fail(t, "ring-writeto-count", "WriteTo reported %d bytes, the writer accepted %d", n, len(w.Accepted))
			}
			if len(w.Accepted) > len(m.model) || !bytes.Equal(w.Accepted, m.model[:len(w.Accepted)]) {
				m.fail(t, "ring-writeto-data", "the writer accepted %d bytes that are not the front of the content", len(w.Accepted))
			}
			// every offered chunk is the next unsent part of the content, in order
			off := 0
			for i, p := range w.Offered {
				if off+len(p) > len(m.model) || !bytes.Equal(p, m.model[off:off+len(p)]) {
					m.fail(t, "ring-writeto-offer", "call %d offered %d bytes that are not content[%d:]", i, len(p), off)
				}
				acc := len(p)
				if i < len(w.Steps) && w.Steps[i].N < acc {
					acc = w.Steps[i].N
				}
				off += acc
			}
			if w.Failed {
				if err == nil {
					m.fail(t, "ring-writeto-err", "the writer failed or was short but WriteTo returned nil")
				}
			} else {
				if err != nil || int(n) != before {
					m.fail(t, "ring-writeto-drain", "a fully accepting writer got %d of %d bytes, err %v", n, before, err)
				}
			}
			m.model = m.model[len(w.Accepted):]
		},
		"Reset": func(t *rapid.T) {
			m.logf("Reset")
			m.rb.Reset()
			m.model = nil
		},
	}
}

func runMachine(st *vstat.Stats, maxSize int) func(*rapid.T) {
	return func(t *rapid.T) {
		init := rapid.SampledFrom(initSizes).Draw(t, "newSize")
		m := &machine{rb: ring.New(init), gen: vio.Gen{Key: uint64(init)*7919 + 17}}
		m.lastCap = m.rb.Cap()
		m.logf("New(%d)", init)
		defer func() {
			st.Eval()
			nt := m.wrapped || m.grew || m.full
			if nt {
				st.NonTrivial(vstat.Hash(strings.Join(m.hist, ";")))
			}
			if m.wrapped {
				st.Label("wrapped")
			}
			if m.grew {
				st.Label("grew")
			}
			if m.full {
				st.Label("exactly_full")
			}
			if !nt {
				st.Label("trivial")
			}
			if st.WantSample(nt) {
				st.Sample(nt, strings.Join(m.hist, "; "))
			}
		}()
		t.Repeat(m.actions(maxSize))
	}
}

func TestC09Machine(t *testing.T) {
	st := vstat.New("C09.machine")
	defer st.Flush()
	rapid.Check(t, runMachine(st, 9000))
}

// Small-capacity variant: sizes stay tiny so that wrap-around, exact fullness
// and growth from 2/4/8 bytes dominate.
func TestC09Small(t *testing.T) {
	st := vstat.New("C09.small")
	defer st.Flush()
	rapid.Check(t, func(t *rapid.T) {
		init := rapid.SampledFrom([]int{1, 2, 3, 4, 8}).Draw(t, "newSize")
		m := &machine{rb: ring.New(init), gen: vio.Gen{Key: 99}}
		m.lastCap = m.rb.Cap()
		m.logf("New(%d)", init)
		defer func() {
			st.Eval()
			nt := m.wrapped || m.grew || m.full
			if nt {
				st.NonTrivial(vstat.Hash(strings.Join(m.hist, ";")))
			}
			if st.WantSample(nt) {
				st.Sample(nt, strings.Join(m.hist, "; "))
			}
		}()
		t.Repeat(m.actions(12))
	})
}
