// C01 — inbound stream integrity under any segmentation and consumption pattern.
package c01

import (
	"bytes"
	"fmt"
	"net"
	"os"
	"strings"
	"sync"
	"sync/atomic"
	"testing"
	"time"

	"pgregory.net/rapid"

	gnet "github.com/panjf2000/gnet/v2"
	"github.com/panjf2000/gnet/v2/internal/vshim"
	"github.com/panjf2000/gnet/v2/verifx/fx"
	"github.com/panjf2000/gnet/v2/verifx/vio"
	"github.com/panjf2000/gnet/v2/verifx/vstat"
)

const stallBound = 8 * time.Second

// ---- case description (pure data, so that a case can be re-run) ---------------------

type op struct {
	Kind string // peek, discard, peekdiscard, next, read, writeto, buffered
	K    int    // size selector (see size())
	J    int    // second selector (discard part of a peek)
	W    []vio.Step
}

type seg struct {
	N   int
	Gap int // 0 none, 1 lock-step (wait until offered to the handler), 2 short sleep
}

type connSpec struct {
	Key     uint64
	Segs    []seg
	Ending  int // 0 close after the last segment, 1 CloseWrite then wait for the close, 2 handler closes at callback CloseAt
	CloseAt int
	Drain   bool // OnClose reads the remainder (otherwise it only peeks at it and the connection dies with unconsumed bytes)
	Script  [][]op
}

type caseSpec struct {
	Cfg   fx.Cfg
	Conns []connSpec
	// ShortReads (LT mode only): the shim hands the kernel only this share of the read buffer
	// (0 = EAGAIN), i.e. real short reads of generated sizes
	ShortReads []int
}

func (o op) String() string {
	s := fmt.Sprintf("%s(%s", o.Kind, selName(o.K))
	if o.Kind == "peekdiscard" {
		s += "," + selName(o.J)
	}
	if o.Kind == "writeto" {
		s += fmt.Sprintf(",%v", o.W)
	}
	return s + ")"
}

func selName(k int) string {
	switch k {
	case 0:
		return "1"
	case 1:
		return "avail-1"
	case 2:
		return "avail"
	case 3:
		return "avail+1"
	case 4:
		return "all"
	case 5:
		return "avail/2"
	case 6:
		return "avail/3"
	default:
		return fmt.Sprint(k)
	}
}

func (c caseSpec) String() string {
	var b strings.Builder
	fmt.Fprintf(&b, "cfg: %s shortReads%%=%v\n", c.Cfg, c.ShortReads)
	for i, cs := range c.Conns {
		fmt.Fprintf(&b, " conn%d: segments %v ending %d closeAt %d drainAtClose %v script %v\n", i, cs.Segs, cs.Ending, cs.CloseAt, cs.Drain, cs.Script)
	}
	return b.String()
}

// size resolves a selector against the bytes currently available.
func size(sel, avail int) int {
	switch sel {
	case 0:
		return 1
	case 1:
		return avail - 1
	case 2:
		return avail
	case 3:
		return avail + 1
	case 4:
		return -1
	case 5:
		return avail / 2
	case 6:
		return avail / 3
	default:
		return sel
	}
}

// ---- per-connection state (runs on the loop goroutine) ------------------------------

type connState struct {
	id         int
	spec       connSpec
	cfg        fx.Cfg
	pc         int
	consumed   int
	delivered  int64 // max(consumed + buffered) seen at a callback (atomic)
	sent       int64 // bytes the peer has written or is writing (atomic)
	mu         sync.Mutex
	fails      []string
	opened     int32
	closedCh   chan struct{}
	closeErr   error
	final      int
	afterClose int32
	// labels
	leftover, spanPeek, bigLeftover, failWriter, crossDiscard bool
	plan                                                      *vshim.Plan
}

func (st *connState) failf(key, f string, a ...any) {
	st.mu.Lock()
	if len(st.fails) < 4 {
		st.fails = append(st.fails, fmt.Sprintf("VERIF-KEY:%s conn%d: %s", key, st.id, fmt.Sprintf(f, a...)))
	}
	st.mu.Unlock()
}

func (st *connState) expect(off, n int) []byte {
	p := make([]byte, n)
	vio.Fill(p, st.spec.Key, uint64(off))
	return p
}

func (st *connState) OnOpen(c gnet.Conn) ([]byte, gnet.Action) {
	if st.plan != nil {
		st.plan.Track(c.Fd())
	}
	if atomic.AddInt32(&st.opened, 1) != 1 {
		st.failf("in-open-twice", "OnOpen called again")
	}
	if n := c.InboundBuffered(); n != 0 {
		st.failf("in-open-buffered", "InboundBuffered() = %d inside OnOpen", n)
	}
	return nil, gnet.None
}

func (st *connState) OnTraffic(c gnet.Conn) gnet.Action {
	if atomic.LoadInt32(&st.afterClose) != 0 {
		st.failf("in-traffic-after-close", "OnTraffic after OnClose")
		return gnet.None
	}
	avail0 := c.InboundBuffered()
	delivered := st.consumed + avail0
	prev := int(atomic.LoadInt64(&st.delivered))
	if delivered < prev {
		st.failf("in-vanished", "bytes vanished between callbacks: consumed %d + buffered %d = %d, but %d had been offered before", st.consumed, avail0, delivered, prev)
	}
	if s := atomic.LoadInt64(&st.sent); int64(delivered) > s {
		st.failf("in-invented", "consumed %d + buffered %d exceeds the %d bytes the peer has sent", st.consumed, avail0, s)
	}
	left := prev - st.consumed // bytes the previous callbacks left unconsumed
	if left > 0 && delivered > prev {
		st.leftover = true
		if left >= 1024 {
			st.bigLeftover = true
		}
	}
	// the whole buffered content must be the continuation of the stream
	if all, err := c.Peek(-1); err != nil || !bytes.Equal(all, st.expect(st.consumed, avail0)) {
		st.failf("in-content", "at callback entry the %d buffered bytes are not stream[%d:%d] (err %v, got %d bytes, first difference at %d)", avail0, st.consumed, st.consumed+avail0, err, len(all), firstDiff(all, st.expect(st.consumed, avail0)))
	}
	var acts []op
	if len(st.spec.Script) > 0 {
		acts = st.spec.Script[st.pc%len(st.spec.Script)]
	}
	cb := st.pc
	st.pc++
	// what Next returned earlier in this callback stays the handler's until the callback returns
	// ("buf must not be used in a new goroutine" - it may be used in this one)
	type heldNext struct {
		got, want []byte
		what      string
	}
	var held []heldNext
	defer func() {
		for _, h := range held {
			if !bytes.Equal(h.got, h.want) {
				st.failf("in-next-changed", "the %d bytes returned by %s earlier in this callback changed before the callback returned (first difference at %d)", len(h.want), h.what, firstDiff(h.got, h.want))
				break
			}
		}
	}()
	for _, o := range acts {
		avail := c.InboundBuffered()
		n := size(o.K, avail)
		if n == 0 {
			n = 1
		}
		switch o.Kind {
		case "buffered":
			// already checked by the conservation rule below
		case "peek", "peekdiscard":
			b, err := c.Peek(n)
			want := n
			if n < 0 {
				want = avail
			}
			if n > avail {
				if err == nil {
					st.failf("in-peek-short", "Peek(%d) with %d available returned no error", n, avail)
				}
				if c.InboundBuffered() != avail {
					st.failf("in-peek-consumed", "failed Peek(%d) changed InboundBuffered %d -> %d", n, avail, c.InboundBuffered())
				}
				break
			}
			if err != nil || !bytes.Equal(b, st.expect(st.consumed, want)) {
				st.failf("in-peek", "Peek(%d) with %d available (leftover %d): err %v, %d bytes, first difference at %d", n, avail, left, err, len(b), firstDiff(b, st.expect(st.consumed, want)))
			}
			if c.InboundBuffered() != avail {
				st.failf("in-peek-consumed", "Peek(%d) consumed: InboundBuffered %d -> %d", n, avail, c.InboundBuffered())
			}
			lo := prev - st.consumed
			if lo > 0 && want > lo {
				st.spanPeek = true
			}
			if o.Kind == "peekdiscard" && want > 0 {
				d := size(o.J, want)
				if d <= 0 || d > want {
					d = want
				}
				got, err := c.Discard(d)
				if got != d || err != nil {
					st.failf("in-discard", "Discard(%d) after Peek(%d) with %d available = (%d, %v)", d, n, avail, got, err)
				}
				if lo > 0 && d > lo {
					st.crossDiscard = true
				}
				st.consumed += got
			}
		case "discard":
			got, err := c.Discard(n)
			want := n
			if n < 0 || n > avail {
				want = avail
			}
			if got != want || err != nil {
				st.failf("in-discard", "Discard(%d) with %d available = (%d, %v), want %d", n, avail, got, err, want)
			}
			st.consumed += got
		case "next":
			b, err := c.Next(n)
			if n > avail {
				if err == nil {
					st.failf("in-next-short", "Next(%d) with %d available returned no error", n, avail)
				}
				if c.InboundBuffered() != avail {
					st.failf("in-next-consumed", "failed Next(%d) changed InboundBuffered %d -> %d", n, avail, c.InboundBuffered())
				}
				break
			}
			want := n
			if n < 0 {
				want = avail
			}
			if err != nil || !bytes.Equal(b, st.expect(st.consumed, want)) {
				st.failf("in-next", "Next(%d) with %d available: err %v, %d bytes, first difference at %d", n, avail, err, len(b), firstDiff(b, st.expect(st.consumed, want)))
			} else if len(b) > 0 {
				held = append(held, heldNext{b, append([]byte(nil), b...), fmt.Sprintf("Next(%d)", n)})
			}
			st.consumed += len(b)
		case "read":
			if n < 0 {
				n = avail
			}
			if n == 0 {
				break
			}
			p := make([]byte, n)
			got, _ := c.Read(p)
			lim := n
			if avail < lim {
				lim = avail
			}
			if got > lim || (lim > 0 && got == 0) || !bytes.Equal(p[:got], st.expect(st.consumed, got)) {
				st.failf("in-read", "Read(%d bytes) with %d available returned %d (first difference at %d)", n, avail, got, firstDiff(p[:got], st.expect(st.consumed, got)))
			}
			st.consumed += got
		case "writeto":
			w := &vio.Writer{Steps: append([]vio.Step(nil), o.W...)}
			got, err := c.WriteTo(w)
			if int(got) != len(w.Accepted) {
				st.failf("in-writeto-count", "WriteTo reported %d, the writer accepted %d", got, len(w.Accepted))
			}
			if len(w.Accepted) > avail || !bytes.Equal(w.Accepted, st.expect(st.consumed, len(w.Accepted))) {
				st.failf("in-writeto-data", "WriteTo handed %d bytes to the writer that are not stream[%d:] (available %d)", len(w.Accepted), st.consumed, avail)
			}
			off := 0
			for i, p := range w.Offered {
				if !bytes.Equal(p, st.expect(st.consumed+off, len(p))) {
					st.failf("in-writeto-offer", "WriteTo call %d offered %d bytes that are not stream[%d:]", i, len(p), st.consumed+off)
				}
				acc := len(p)
				if i < len(w.Steps) && w.Steps[i].N < acc {
					acc = w.Steps[i].N
				}
				off += acc
			}
			if !w.Failed && (err != nil || len(w.Accepted) != avail) {
				st.failf("in-writeto-drain", "WriteTo with an accepting writer moved %d of %d bytes, err %v", len(w.Accepted), avail, err)
			}
			if w.Failed {
				st.failWriter = true
			}
			st.consumed += len(w.Accepted)
		}
		if st.consumed+c.InboundBuffered() != delivered {
			st.failf("in-conservation", "after %s in callback %d: consumed %d + InboundBuffered %d != %d offered at callback entry", o, cb, st.consumed, c.InboundBuffered(), delivered)
		}
	}
	atomic.StoreInt64(&st.delivered, int64(delivered))
	if st.spec.Ending == 2 && cb >= st.spec.CloseAt {
		return gnet.Close
	}
	return gnet.None
}

func (st *connState) OnClose(c gnet.Conn, err error) gnet.Action {
	if atomic.AddInt32(&st.afterClose, 1) != 1 {
		st.failf("in-close-twice", "OnClose called again")
		return gnet.None
	}
	rem := c.InboundBuffered()
	if st.consumed+rem < int(atomic.LoadInt64(&st.delivered)) {
		st.failf("in-vanished", "at OnClose consumed %d + buffered %d is less than the %d offered before", st.consumed, rem, atomic.LoadInt64(&st.delivered))
	}
	var b []byte
	if st.spec.Drain {
		b, _ = c.Next(-1)
	} else {
		b, _ = c.Peek(-1)
	}
	if len(b) != rem || !bytes.Equal(b, st.expect(st.consumed, rem)) {
		st.failf("in-close-remainder", "in OnClose the %d readable bytes are not stream[%d:] (got %d bytes, first difference at %d)", rem, st.consumed, len(b), firstDiff(b, st.expect(st.consumed, rem)))
	}
	st.final = st.consumed + rem
	st.closeErr = err
	close(st.closedCh)
	return gnet.None
}

func firstDiff(a, b []byte) int {
	n := len(a)
	if len(b) < n {
		n = len(b)
	}
	for i := 0; i < n; i++ {
		if a[i] != b[i] {
			return i
		}
	}
	return n
}

// ---- session ---------------------------------------------------------------------------

type result struct {
	fails     []string
	stalls    []string
	infra     string
	states    []*connState
	shortHits int64
}

func runSession(cs caseSpec) (res result) {
	plan := &vshim.Plan{ShortReads: cs.ShortReads}
	vshim.Install(plan)
	defer vshim.Install(nil)
	defer func() { res.shortHits = plan.ShortHits }()
	e, err := fx.Start(cs.Cfg, fx.EngineHooks{})
	if err != nil {
		res.infra = err.Error()
		return
	}
	defer func() {
		if err := e.Stop(); err != nil {
			res.fails = append(res.fails, "VERIF-KEY:in-stop engine stop: "+err.Error())
		}
		for _, p := range e.Logger.Panics() {
			res.fails = append(res.fails, "VERIF-KEY:panic-logged "+p)
		}
	}()
	var wg sync.WaitGroup
	var mu sync.Mutex
	addFail := func(s string) { mu.Lock(); res.fails = append(res.fails, s); mu.Unlock() }
	addStall := func(s string) { mu.Lock(); res.stalls = append(res.stalls, s); mu.Unlock() }
	for i := range cs.Conns {
		st := &connState{id: i, spec: cs.Conns[i], cfg: cs.Cfg, plan: plan, closedCh: make(chan struct{})}
		res.states = append(res.states, st)
		peer, _, err := e.Connect(st)
		if err != nil {
			if strings.Contains(err.Error(), fx.ErrInfra.Error()) {
				res.infra = err.Error()
			} else {
				addFail("VERIF-KEY:in-connect " + err.Error())
			}
			break
		}
		wg.Add(1)
		go func(st *connState, peer net.Conn) {
			defer wg.Done()
			defer peer.Close()
			off := 0
			closedEarly := false
		segments:
			for si, sg := range st.spec.Segs {
				buf := st.expect(off, sg.N)
				atomic.AddInt64(&st.sent, int64(sg.N))
				_ = peer.SetWriteDeadline(time.Now().Add(20 * time.Second))
				if _, err := peer.Write(buf); err != nil {
					if st.spec.Ending == 2 {
						closedEarly = true
						break
					}
					addFail(fmt.Sprintf("VERIF-KEY:in-peer-write conn%d: peer write of segment %d failed: %v", st.id, si, err))
					return
				}
				off += sg.N
				switch sg.Gap {
				case 1:
					dl := time.Now().Add(stallBound)
					for atomic.LoadInt64(&st.delivered) < int64(off) {
						select {
						case <-st.closedCh:
							if st.spec.Ending == 2 {
								closedEarly = true
								break segments
							}
						default:
						}
						if time.Now().After(dl) {
							addStall(fmt.Sprintf("VERIF-KEY:in-stall conn%d: the peer has sent %d bytes, the handler was offered only %d for %v although the loop is idle", st.id, off, atomic.LoadInt64(&st.delivered), stallBound))
							return
						}
						time.Sleep(50 * time.Microsecond)
					}
				case 2:
					time.Sleep(200 * time.Microsecond)
				}
			}
			_ = closedEarly
			switch st.spec.Ending {
			case 0:
				peer.Close()
			case 1:
				if cw, ok := peer.(interface{ CloseWrite() error }); ok {
					_ = cw.CloseWrite()
					_ = peer.SetReadDeadline(time.Now().Add(stallBound))
					var one [16]byte
					for {
						if _, err := peer.Read(one[:]); err != nil {
							break
						}
					}
				}
				peer.Close()
			case 2:
				// wait for the handler's close; keep the stream flowing meanwhile
				dl := time.Now().Add(stallBound)
				for {
					select {
					case <-st.closedCh:
					default:
						if time.Now().After(dl) {
							break
						}
						// the handler closes at callback CloseAt: feed it callbacks
						b := st.expect(off, 1)
						atomic.AddInt64(&st.sent, 1)
						_ = peer.SetWriteDeadline(time.Now().Add(time.Second))
						if _, err := peer.Write(b); err != nil {
							break
						}
						off++
						time.Sleep(300 * time.Microsecond)
						continue
					}
					break
				}
			}
			select {
			case <-st.closedCh:
			case <-time.After(stallBound):
				addStall(fmt.Sprintf("VERIF-KEY:in-noclose conn%d: no OnClose within %v after the peer finished (ending %d)", st.id, stallBound, st.spec.Ending))
				return
			}
			if st.spec.Ending != 2 {
				if st.final != off {
					addFail(fmt.Sprintf("VERIF-KEY:in-incomplete conn%d: the peer sent %d bytes before its orderly close, only %d were consumed or readable when OnClose fired (err %v)", st.id, off, st.final, st.closeErr))
				}
				if st.closeErr == nil {
					addFail(fmt.Sprintf("VERIF-KEY:in-close-err conn%d: OnClose reported a nil error for a close by the peer", st.id))
				}
			} else if st.closeErr != nil && !closedEarly {
				// the handler asked for the close; a racing peer-side error is possible only if the peer closed first
				addFail(fmt.Sprintf("VERIF-KEY:in-close-err conn%d: OnClose reported %v for a close requested by the handler", st.id, st.closeErr))
			}
		}(st, peer)
	}
	wg.Wait()
	for _, st := range res.states {
		st.mu.Lock()
		res.fails = append(res.fails, st.fails...)
		st.mu.Unlock()
	}
	return
}

// ---- generation ----------------------------------------------------------------------------

func drawCase(t *rapid.T) caseSpec {
	var cs caseSpec
	cs.Cfg = fx.DrawCfg(t, fx.DrawOpt{})
	if !cs.Cfg.ET && rapid.IntRange(0, 2).Draw(t, "shortReads") == 0 {
		n := rapid.IntRange(1, 6).Draw(t, "nShort")
		for i := 0; i < n; i++ {
			cs.ShortReads = append(cs.ShortReads, rapid.SampledFrom([]int{0, 1, 1, 10, 50, 99, 100}).Draw(t, "pct"))
		}
		cs.ShortReads = append(cs.ShortReads, 50) // a cycle of EAGAINs only would never make progress
	}
	rc := cs.Cfg.ReadCap
	nconn := rapid.IntRange(1, 4).Draw(t, "conns")
	kinds := []string{"peek", "discard", "peekdiscard", "next", "read", "writeto", "buffered"}
	for i := 0; i < nconn; i++ {
		var c connSpec
		c.Key = uint64(rapid.Uint32().Draw(t, "key"))
		ncb := rapid.IntRange(1, 4).Draw(t, "callbacks")
		for j := 0; j < ncb; j++ {
			nops := rapid.IntRange(0, 3).Draw(t, "ops")
			var acts []op
			for k := 0; k < nops; k++ {
				o := op{Kind: rapid.SampledFrom(kinds).Draw(t, "kind"), K: rapid.IntRange(0, 9).Draw(t, "k"), J: rapid.IntRange(0, 6).Draw(t, "j")}
				if o.K > 6 {
					o.K = rapid.SampledFrom([]int{2, 7, 100, 511, 1023, 1024, 1025, 4000}).Draw(t, "abs")
				}
				if o.Kind == "writeto" {
					ns := rapid.IntRange(0, 3).Draw(t, "wsteps")
					for s := 0; s < ns; s++ {
						o.W = append(o.W, vio.Step{N: rapid.SampledFrom([]int{0, 1, 5, 100, 1000, 5000}).Draw(t, "wn"), Err: rapid.SampledFrom([]int{0, 0, 1, 2}).Draw(t, "werr")})
					}
				}
				acts = append(acts, o)
			}
			c.Script = append(c.Script, acts)
		}
		nseg := rapid.IntRange(1, 12).Draw(t, "segments")
		sizes := []int{1, 2, 7, 100, rc - 1, rc, rc + 1, 2*rc + 3, 20000}
		if rapid.IntRange(0, 15).Draw(t, "huge") == 0 {
			sizes = append(sizes, 150000, 262144)
		}
		for j := 0; j < nseg; j++ {
			c.Segs = append(c.Segs, seg{N: rapid.SampledFrom(sizes).Draw(t, "seg"), Gap: rapid.SampledFrom([]int{0, 1, 1, 2}).Draw(t, "gap")})
		}
		c.Ending = rapid.SampledFrom([]int{0, 0, 1, 2}).Draw(t, "ending")
		c.CloseAt = rapid.IntRange(0, 6).Draw(t, "closeAt")
		c.Drain = rapid.Bool().Draw(t, "drainAtClose")
		cs.Conns = append(cs.Conns, c)
	}
	// a tiny receive buffer on the gnet side turns a large transfer into a
	// silly-window crawl (tens of KB/s): keep it for small streams only
	for _, c := range cs.Conns {
		total := 0
		for _, sg := range c.Segs {
			total += sg.N
		}
		if total > 32768 {
			cs.Cfg.RcvBuf = 0
		}
	}
	return cs
}

func TestC01Sessions(t *testing.T) {
	st := vstat.New("C01.sessions")
	defer st.Flush()
	defer fx.Cleanup()
	rapid.Check(t, func(t *rapid.T) {
		cs := drawCase(t)
		res := runSession(cs)
		if res.infra != "" {
			t.Fatalf("VERIF-INFRA %s\n%s", res.infra, cs)
		}
		if len(res.stalls) > 0 && len(res.fails) == 0 {
			// stall rule: a stall counts only if the same case stalls again
			st.Label("stall_candidate")
			res2 := runSession(cs)
			if res2.infra == "" && len(res2.stalls) == 0 && len(res2.fails) == 0 {
				st.Label("stall_not_confirmed")
				res.stalls = nil
			} else {
				res.fails = append(res.fails, res.stalls...)
				res.fails = append(res.fails, res2.fails...)
			}
		} else {
			res.fails = append(res.fails, res.stalls...)
		}
		st.Eval()
		nt := false
		for _, s := range res.states {
			if s.leftover {
				nt = true
				st.NonTrivial(vstat.Hash(cs.Cfg.String(), fmt.Sprint(s.spec)))
				st.Label("conn_leftover_consumed_later")
			}
			if s.spanPeek {
				st.Label("conn_peek_spanning_both_buffers")
			}
			if s.crossDiscard {
				st.Label("conn_discard_across_boundary")
			}
			if s.bigLeftover {
				st.Label("conn_leftover_ge_1KiB")
			}
			if s.failWriter {
				st.Label("conn_writeto_failing_writer")
			}
			st.Label("connections")
		}
		if cs.Cfg.Client {
			st.Label("client_side")
		}
		if cs.Cfg.ET {
			st.Label("edge_triggered")
		}
		if cs.Cfg.Net == "unix" {
			st.Label("unix")
		}
		if res.shortHits > 0 {
			st.Label("session_with_shim_shortened_reads")
		}
		if st.WantSample(nt) {
			st.Sample(nt, cs.String())
		}
		if len(res.fails) > 0 {
			t.Fatalf("%s\ncase:\n%s", strings.Join(res.fails, "\n"), cs)
		}
	})
}

func TestMain(m *testing.M) {
	code := m.Run()
	fx.Cleanup()
	os.Exit(code)
}
