package c05

// Client.Dial / Enroll racing Client.Stop while a handler keeps a loop busy: the goroutine
// that dials and the loop that registers touch the same connection object, and which of the
// two disposes of it when the client stops is decided by the engine's state - any overlap
// is a data race inside the framework (the race detector is the oracle; the functional
// oracles of the shared driver run as well).

import (
	"strings"
	"testing"

	"pgregory.net/rapid"

	"github.com/panjf2000/gnet/v2/verifx/clix"
	"github.com/panjf2000/gnet/v2/verifx/vstat"
)

func TestC05ClientStop(t *testing.T) {
	st := vstat.New("C05.client_stop")
	defer st.Flush()
	rapid.Check(t, func(t *rapid.T) {
		var cs clix.Case
		cs.Loops = rapid.IntRange(1, 2).Draw(t, "loops")
		cs.ET = rapid.Bool().Draw(t, "et")
		kind := rapid.SampledFrom(clix.Kinds)
		cs.Before = rapid.SliceOfN(kind, 0, 4).Draw(t, "running")
		ng := rapid.IntRange(1, 4).Draw(t, "racers")
		for i := 0; i < ng; i++ {
			cs.Racing = append(cs.Racing, rapid.SliceOfN(kind, 1, 3).Draw(t, "racing"))
		}
		cs.StopGap = rapid.SampledFrom([]int{0, 50, 300}).Draw(t, "stopGapUs")
		cs.BusyMs = rapid.SampledFrom([]int{0, 700, 700, 1200}).Draw(t, "busyMs")
		fails, infra, _, errN := clix.Run(cs, false)
		if infra != "" {
			t.Fatalf("VERIF-INFRA %s\n%s", infra, cs)
		}
		for _, f := range fails {
			if strings.Contains(f, "VERIF-INFRA") {
				t.Fatalf("%s\n%s", f, cs)
			}
		}
		st.Eval()
		nt := errN > 0 && cs.BusyMs > 0
		if nt {
			st.NonTrivial(vstat.Hash(cs.String()))
			st.Label("registrations_given_up_while_a_loop_was_busy")
		}
		if st.WantSample(nt) {
			st.Sample(nt, cs.String())
		}
		if len(fails) > 0 {
			t.Fatalf("%s\ncase: %s", strings.Join(fails, "\n"), cs)
		}
	})
}
