package c05

// The loops of an engine share the ring-buffer pool (and the byte-slice pool): a
// connection's inbound ring comes from it when a handler leaves data unread and goes
// back when the data is consumed. The pool re-calibrates itself after 42 000 returns
// of one size class - state that every loop reads on every Get and Put. With several
// loops churning rings for long enough to calibrate a few times, the race detector
// must stay silent (the driver turns a report with both stacks inside the framework
// into the violation).

import (
	"fmt"
	"net"
	"sync"
	"sync/atomic"
	"testing"
	"time"

	"pgregory.net/rapid"

	gnet "github.com/panjf2000/gnet/v2"
	"github.com/panjf2000/gnet/v2/verifx/fx"
	"github.com/panjf2000/gnet/v2/verifx/vstat"
)

type churnConn struct {
	cycles *int64
	phase  int
}

func (c *churnConn) OnOpen(gnet.Conn) ([]byte, gnet.Action) { return nil, gnet.None }
func (c *churnConn) OnClose(gnet.Conn, error) gnet.Action   { return gnet.None }
func (c *churnConn) OnTraffic(gc gnet.Conn) gnet.Action {
	if c.phase == 0 && gc.InboundBuffered() > 0 {
		// leave the data where it is (the loop moves it into a pooled ring when this returns) and come back
		c.phase = 1
		_ = gc.Wake(nil)
		return gnet.None
	}
	c.phase = 0
	b, _ := gc.Next(-1) // drains the ring: it goes back to the pool
	if len(b) > 0 {
		atomic.AddInt64(c.cycles, 1)
		_, _ = gc.Write(b)
	}
	return gnet.None
}

func TestC05PoolChurnAcrossLoops(t *testing.T) {
	st := vstat.New("C05.pool_churn_across_loops")
	defer st.Flush()
	rapid.Check(t, func(t *rapid.T) {
		cfg := fx.DrawCfg(t, fx.DrawOpt{ServerOnly: true})
		cfg.Loops = rapid.SampledFrom([]int{4, 8, 8}).Draw(t, "loops")
		cfg.RcvBuf, cfg.Ticker = 0, false
		if cfg.LB == gnet.SourceAddrHash {
			cfg.LB = gnet.RoundRobin // spread the connections over the loops
		}
		nc := rapid.IntRange(8, 16).Draw(t, "conns")
		target := int64(rapid.SampledFrom([]int{50000, 90000, 130000}).Draw(t, "ringReturns"))
		e, err := fx.Start(cfg, fx.EngineHooks{})
		if err != nil {
			t.Fatalf("VERIF-INFRA %v", err)
		}
		var cycles int64
		var peers []net.Conn
		for i := 0; i < nc; i++ {
			p, _, err := e.Connect(&churnConn{cycles: &cycles})
			if err != nil {
				_ = e.Stop()
				t.Fatalf("VERIF-INFRA %v", err)
			}
			peers = append(peers, p)
		}
		var wg sync.WaitGroup
		var stalled int32
		for _, p := range peers {
			wg.Add(1)
			go func(p net.Conn) {
				defer wg.Done()
				buf := make([]byte, 8)
				for atomic.LoadInt64(&cycles) < target && atomic.LoadInt32(&stalled) == 0 {
					_ = p.SetDeadline(time.Now().Add(8 * time.Second))
					if _, err := p.Write([]byte{7}); err != nil {
						atomic.StoreInt32(&stalled, 1)
						return
					}
					if _, err := p.Read(buf[:1]); err != nil {
						atomic.StoreInt32(&stalled, 1)
						return
					}
				}
			}(p)
		}
		wg.Wait()
		for _, p := range peers {
			p.Close()
		}
		serr := e.Stop()
		st.Eval()
		st.NonTrivial(vstat.Hash(cfg.String(), nc, target))
		st.LabelN("ring_returns_to_the_shared_pool", atomic.LoadInt64(&cycles))
		if st.WantSample(true) {
			st.Sample(true, fmt.Sprintf("%s: %d connections, %d inbound rings taken from and returned to the shared pool", cfg, nc, atomic.LoadInt64(&cycles)))
		}
		if atomic.LoadInt32(&stalled) == 1 {
			t.Fatalf("VERIF-KEY:conf-churn-stall an echo did not come back within 8s after %d cycles\ncfg: %s", atomic.LoadInt64(&cycles), cfg)
		}
		if serr != nil {
			t.Fatalf("VERIF-KEY:conf-stop %v", serr)
		}
	})
}
