// C05 — event-loop confinement and freedom from data races. Built with -race.
package c05

import (
	"context"
	"fmt"
	"net"
	"os"
	"strings"
	"sync"
	"sync/atomic"
	"testing"
	"time"

	"golang.org/x/sys/unix"
	"pgregory.net/rapid"

	gnet "github.com/panjf2000/gnet/v2"
	"github.com/panjf2000/gnet/v2/verifx/fx"
	"github.com/panjf2000/gnet/v2/verifx/vstat"
)

type caseSpec struct {
	Cfg     fx.Cfg
	Conns   int
	Workers [][]wop // per external goroutine: operations
	StopAt  int     // percent of the workers' work after which Engine.Stop is called
}

type wop struct {
	Kind string
	Conn int
}

func (c caseSpec) String() string {
	var b strings.Builder
	fmt.Fprintf(&b, "cfg: %s\n conns=%d stopAt=%d%%\n", c.Cfg, c.Conns, c.StopAt)
	for i, w := range c.Workers {
		var ks []string
		for _, o := range w {
			ks = append(ks, fmt.Sprintf("%s@%d", o.Kind, o.Conn))
		}
		fmt.Fprintf(&b, " worker%d: %s\n", i, strings.Join(ks, " "))
	}
	return b.String()
}

var opKinds = []string{"asyncwrite", "asyncwritev", "wake", "close", "closecb", "safectx-get", "safectx-set", "fd", "dup", "sockopts",
	"execute", "register", "enroll", "count"}

// loopInfo tracks what runs on one event loop.
type loopInfo struct {
	goid   uint64
	inside int32
}

type session struct {
	cs              caseSpec
	e               *fx.Engine
	mu              sync.Mutex
	loops           map[gnet.EventLoop]*loopInfo
	byGoid          map[uint64]gnet.EventLoop
	fails           []string
	conns           []*cstate
	target          net.Listener
	loopsActive     map[gnet.EventLoop]bool
	externalsActive int32
	overlapSeen     bool
}

func (s *session) failf(key, f string, a ...any) {
	s.mu.Lock()
	if len(s.fails) < 6 {
		s.fails = append(s.fails, fmt.Sprintf("VERIF-KEY:%s %s", key, fmt.Sprintf(f, a...)))
	}
	s.mu.Unlock()
}

// enter/leave bracket everything that must run on loop l.
func (s *session) enter(l gnet.EventLoop, what string) *loopInfo {
	g := fx.Goid()
	s.mu.Lock()
	li := s.loops[l]
	if li == nil {
		li = &loopInfo{goid: g}
		s.loops[l] = li
		if other, dup := s.byGoid[g]; dup && other != l {
			s.mu.Unlock()
			s.failf("conf-shared-goroutine", "%s: two event loops run their callbacks on the same goroutine %d", what, g)
			s.mu.Lock()
		}
		s.byGoid[g] = l
	}
	if atomic.LoadInt32(&s.externalsActive) >= 2 {
		s.loopsActive[l] = true
	}
	s.mu.Unlock()
	if li.goid != g {
		s.failf("conf-goroutine", "%s ran on goroutine %d, the other callbacks of this event loop run on goroutine %d", what, g, li.goid)
	}
	if !atomic.CompareAndSwapInt32(&li.inside, 0, 1) {
		s.failf("conf-overlap", "%s started while another callback of the same event loop was still running", what)
	}
	return li
}

func (li *loopInfo) leave() { atomic.StoreInt32(&li.inside, 0) }

type cstate struct {
	s    *session
	id   int
	gc   gnet.Conn
	loop gnet.EventLoop
	ctxv int // touched only on the loop (plain Context)
}

func (c *cstate) OnOpen(gc gnet.Conn) ([]byte, gnet.Action) {
	li := c.s.enter(gc.EventLoop(), fmt.Sprintf("OnOpen conn%d", c.id))
	defer li.leave()
	c.gc, c.loop = gc, gc.EventLoop()
	gc.SetSafeContext(c.id)
	return nil, gnet.None
}

func (c *cstate) OnTraffic(gc gnet.Conn) gnet.Action {
	li := c.s.enter(gc.EventLoop(), fmt.Sprintf("OnTraffic conn%d", c.id))
	defer li.leave()
	if c.loop != nil && gc.EventLoop() != c.loop {
		c.s.failf("conf-loop-changed", "conn%d changed its event loop", c.id)
	}
	c.ctxv++
	b, _ := gc.Next(-1)
	if len(b) > 0 {
		_, _ = gc.Write(b) // echo
	}
	_ = gc.SafeContext()
	return gnet.None
}

func (c *cstate) OnClose(gc gnet.Conn, err error) gnet.Action {
	li := c.s.enter(gc.EventLoop(), fmt.Sprintf("OnClose conn%d", c.id))
	defer li.leave()
	if c.loop != nil && gc.EventLoop() != c.loop {
		c.s.failf("conf-loop-changed", "conn%d changed its event loop", c.id)
	}
	return gnet.None
}

func (s *session) asyncCB(c *cstate, what string) gnet.AsyncCallback {
	return func(gc gnet.Conn, err error) error {
		l := c.loop
		if l == nil {
			return nil
		}
		li := s.enter(l, what+fmt.Sprintf(" callback conn%d", c.id))
		li.leave()
		return nil
	}
}

func (s *session) do(o wop) {
	if len(s.conns) == 0 {
		return
	}
	c := s.conns[o.Conn%len(s.conns)]
	gc := c.gc
	if gc == nil {
		return
	}
	switch o.Kind {
	case "asyncwrite":
		_ = gc.AsyncWrite([]byte("async"), s.asyncCB(c, "AsyncWrite"))
	case "asyncwritev":
		_ = gc.AsyncWritev([][]byte{[]byte("as"), []byte("yncv")}, s.asyncCB(c, "AsyncWritev"))
	case "wake":
		_ = gc.Wake(s.asyncCB(c, "Wake"))
	case "close":
		_ = gc.Close()
	case "closecb":
		_ = gc.CloseWithCallback(s.asyncCB(c, "CloseWithCallback"))
	case "safectx-get":
		_ = gc.SafeContext()
	case "safectx-set":
		gc.SetSafeContext(o.Conn)
	case "fd":
		_ = gc.Fd()
	case "dup":
		if fd, err := gc.Dup(); err == nil {
			unix.Close(fd)
		}
	case "sockopts":
		_ = gc.SetReadBuffer(32768)
		_ = gc.SetWriteBuffer(32768)
		_ = gc.SetNoDelay(true)
		_ = gc.SetKeepAlivePeriod(30 * time.Second)
		_ = gc.SetKeepAlive(true, 30*time.Second, 10*time.Second, 3)
	case "execute":
		l := c.loop
		if l != nil {
			_ = l.Execute(context.Background(), gnet.RunnableFunc(func(context.Context) error {
				li := s.enter(l, "Execute runnable")
				li.leave()
				return nil
			}))
		}
	case "register", "enroll":
		l := c.loop
		if l == nil {
			return
		}
		st := &cstate{s: s, id: 1000 + o.Conn}
		ctx := gnet.NewContext(context.Background(), fx.ConnHooks(st))
		var ch <-chan gnet.RegisteredResult
		var err error
		if o.Kind == "register" {
			ch, err = l.Register(ctx, s.target.Addr())
		} else {
			nc, derr := net.Dial("tcp", s.target.Addr().String())
			if derr != nil {
				return
			}
			if ch, err = l.Enroll(ctx, nc); err != nil {
				nc.Close() // not accepted: the connection is still the caller's
			}
		}
		if err == nil {
			go func() {
				select {
				case r := <-ch:
					if r.Conn != nil {
						_ = r.Conn.AsyncWrite([]byte("r"), nil)
						time.Sleep(200 * time.Microsecond)
						_ = r.Conn.Close()
					}
				case <-time.After(3 * time.Second):
				}
			}()
		}
	case "count":
		_ = s.e.Eng.CountConnections()
	case "engine-dup":
		if fd, err := s.e.Eng.Dup(); err == nil {
			unix.Close(fd)
		}
	}
}

func runCase(cs caseSpec) (fails []string, infra string, nt bool) {
	s := &session{cs: cs, loops: map[gnet.EventLoop]*loopInfo{}, byGoid: map[uint64]gnet.EventLoop{}, loopsActive: map[gnet.EventLoop]bool{}}
	tl, err := net.Listen("tcp4", fx.Host("tcp4")+":0") // this process's own loop-back address: TIME_WAIT remnants do not pile up on one address
	if err != nil {
		return nil, err.Error(), false
	}
	s.target = tl
	defer tl.Close()
	go func() {
		for {
			c, err := tl.Accept()
			if err != nil {
				return
			}
			go func(c net.Conn) {
				defer c.Close()
				buf := make([]byte, 64)
				for {
					_ = c.SetReadDeadline(time.Now().Add(2 * time.Second))
					n, err := c.Read(buf)
					if err != nil {
						return
					}
					_, _ = c.Write(buf[:n])
				}
			}(c)
		}
	}()
	e, err := fx.Start(cs.Cfg, fx.EngineHooks{})
	if err != nil {
		return nil, err.Error(), false
	}
	s.e = e
	var peers []net.Conn
	for i := 0; i < cs.Conns; i++ {
		st := &cstate{s: s, id: i}
		p, _, err := e.Connect(st)
		if err != nil {
			_ = e.Stop()
			return nil, err.Error(), false
		}
		s.conns = append(s.conns, st)
		peers = append(peers, p)
	}
	// peers: ping-pong traffic until their connection dies
	var stop int32
	var pwg sync.WaitGroup
	for _, p := range peers {
		pwg.Add(1)
		go func(p net.Conn) {
			defer pwg.Done()
			buf := make([]byte, 256)
			for atomic.LoadInt32(&stop) == 0 {
				_ = p.SetDeadline(time.Now().Add(100 * time.Millisecond))
				if _, err := p.Write([]byte("ping")); err != nil {
					return
				}
				if _, err := p.Read(buf); err != nil {
					if ne, ok := err.(net.Error); ok && ne.Timeout() {
						continue
					}
					return
				}
			}
		}(p)
	}
	total := 0
	for _, w := range cs.Workers {
		total += len(w)
	}
	var done int64
	var wg sync.WaitGroup
	stopOnce := make(chan struct{})
	var stopper sync.Once
	for _, w := range cs.Workers {
		wg.Add(1)
		go func(w []wop) {
			defer wg.Done()
			atomic.AddInt32(&s.externalsActive, 1)
			defer atomic.AddInt32(&s.externalsActive, -1)
			for _, o := range w {
				s.do(o)
				if n := atomic.AddInt64(&done, 1); total > 0 && int(n)*100/total >= cs.StopAt {
					stopper.Do(func() { close(stopOnce) })
				}
			}
		}(w)
	}
	go func() {
		wg.Wait()
		stopper.Do(func() { close(stopOnce) })
	}()
	<-stopOnce
	if err := e.Stop(); err != nil {
		s.failf("conf-stop", "%v", err)
	}
	wg.Wait()
	atomic.StoreInt32(&stop, 1)
	for _, p := range peers {
		p.Close()
	}
	pwg.Wait()
	time.Sleep(2 * time.Millisecond)
	for _, p := range e.Logger.Panics() {
		s.failf("panic-logged", "%s", p)
	}
	s.mu.Lock()
	nt = len(s.loopsActive) >= 2
	fails = append(fails, s.fails...)
	s.mu.Unlock()
	return fails, "", nt
}

func drawCase(t *rapid.T) caseSpec {
	var cs caseSpec
	cs.Cfg = fx.DrawCfg(t, fx.DrawOpt{ServerOnly: true})
	cs.Cfg.Loops = rapid.SampledFrom([]int{2, 3, 4, 8}).Draw(t, "loops")
	cs.Cfg.Ticker = true
	cs.Cfg.RcvBuf = 0
	cs.Conns = rapid.IntRange(4, 24).Draw(t, "conns")
	nw := rapid.IntRange(4, 12).Draw(t, "workers")
	for i := 0; i < nw; i++ {
		n := rapid.IntRange(10, 40).Draw(t, "ops")
		var w []wop
		for j := 0; j < n; j++ {
			w = append(w, wop{Kind: rapid.SampledFrom(opKinds).Draw(t, "kind"), Conn: rapid.IntRange(0, cs.Conns-1).Draw(t, "conn")})
		}
		cs.Workers = append(cs.Workers, w)
	}
	cs.StopAt = rapid.SampledFrom([]int{30, 60, 90, 100}).Draw(t, "stopAt")
	return cs
}

func TestC05RaceAndConfinement(t *testing.T) {
	st := vstat.New("C05.race_confinement")
	defer st.Flush()
	rapid.Check(t, func(t *rapid.T) {
		cs := drawCase(t)
		fails, infra, nt := runCase(cs)
		if infra != "" {
			t.Fatalf("VERIF-INFRA %s\n%s", infra, cs)
		}
		st.Eval()
		if nt {
			st.NonTrivial(vstat.Hash(cs.String()))
			st.Label("two_or_more_loops_ran_callbacks_while_two_or_more_goroutines_issued_calls")
		}
		if st.WantSample(nt) {
			st.Sample(nt, cs.String())
		}
		if len(fails) > 0 {
			t.Fatalf("%s\ncase:\n%s", strings.Join(fails, "\n"), cs)
		}
	})
}

func TestMain(m *testing.M) {
	code := m.Run()
	fx.Cleanup()
	os.Exit(code)
}
