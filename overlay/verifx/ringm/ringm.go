// Package ringm is the ring-buffer state machine shared by C09 (ring.Buffer)
// and C10 (the lazily allocated elastic.RingBuffer wrapper).
package ringm

import (
	"bytes"
	"errors"
	"fmt"
	"io"
	"strings"

	"pgregory.net/rapid"

	"github.com/panjf2000/gnet/v2/verifx/vio"
)

// Ring is the method set shared by *ring.Buffer and *elastic.RingBuffer.
type Ring interface {
	Peek(n int) (head []byte, tail []byte)
	Discard(n int) (int, error)
	Read(p []byte) (int, error)
	ReadByte() (byte, error)
	Write(p []byte) (int, error)
	WriteByte(c byte) error
	WriteString(s string) (int, error)
	Buffered() int
	Cap() int
	Available() int
	Bytes() []byte
	ReadFrom(r io.Reader) (int64, error)
	WriteTo(w io.Writer) (int64, error)
	IsFull() bool
	IsEmpty() bool
	Reset()
}

// Machine couples a ring buffer with its byte-slice reference model.
type Machine struct {
	RB     Ring
	Lazy   bool   // elastic wrapper: storage is allocated on demand and returned when drained
	Done   func() // optional extra action of the lazy wrapper
	Prefix string // key prefix for failure signatures
	Model  []byte
	Gen    vio.Gen
	Hist   []string
	// observations for the non-trivial rule
	Wrapped, Grew, Full bool
	LastCap             int
}

func (m *Machine) Logf(format string, a ...any) { m.Hist = append(m.Hist, fmt.Sprintf(format, a...)) }

func (m *Machine) bounds() []int {
	c := m.RB.Cap()
	return []int{m.RB.Available(), c, m.RB.Buffered(), 512, 4096, 1024}
}

type failer interface {
	Fatalf(format string, args ...any)
}

func (m *Machine) fail(t failer, key, format string, a ...any) {
	t.Fatalf("VERIF-KEY:%s%s %s\nhistory: %s", m.Prefix, key, fmt.Sprintf(format, a...), strings.Join(m.Hist, "; "))
}

// invariant: content, counters and flags agree with the model after every step.
func (m *Machine) Invariant(t failer) {
	rb := m.RB
	if g, w := rb.Buffered(), len(m.Model); g != w {
		m.fail(t, "buffered", "Buffered() = %d, model holds %d bytes", g, w)
	}
	if rb.Buffered()+rb.Available() != rb.Cap() {
		m.fail(t, "avail", "Buffered %d + Available %d != Cap %d", rb.Buffered(), rb.Available(), rb.Cap())
	}
	if rb.IsEmpty() != (len(m.Model) == 0) {
		m.fail(t, "isempty", "IsEmpty() = %v with %d bytes in the model", rb.IsEmpty(), len(m.Model))
	}
	if rb.Cap() > 0 && rb.IsFull() != (len(m.Model) == rb.Cap()) {
		m.fail(t, "isfull", "IsFull() = %v with %d bytes, Cap %d", rb.IsFull(), len(m.Model), rb.Cap())
	}
	head, tail := rb.Peek(-1)
	if got := append(append([]byte(nil), head...), tail...); !bytes.Equal(got, m.Model) {
		m.fail(t, "content", "content differs from the model: have %d bytes, want %d; first difference at %d", len(got), len(m.Model), firstDiff(got, m.Model))
	}
	if len(tail) > 0 {
		m.Wrapped = true
	}
	if rb.Cap() != m.LastCap {
		if rb.Cap() > m.LastCap && m.LastCap > 0 {
			m.Grew = true
		}
		m.LastCap = rb.Cap()
	}
	if rb.Cap() > 0 && len(m.Model) == rb.Cap() {
		m.Full = true
	}
}

func firstDiff(a, b []byte) int {
	n := len(a)
	if len(b) < n {
		n = len(b)
	}
	for i := 0; i < n; i++ {
		if a[i] != b[i] {
			return i
		}
	}
	return n
}

// InitSizes are the New(n) arguments used by C09.
var InitSizes = []int{0, 1, 2, 3, 4, 8, 16, 64, 1023, 1024, 4095, 4096, 4097, 5000}

func (m *Machine) Actions(maxSize int) map[string]func(*rapid.T) {
	size := func(t *rapid.T, label string) int { return vio.Size(t, label, maxSize, m.bounds()...) }
	acts := m.actions(maxSize, size)
	if m.Done != nil {
		acts["Done"] = func(t *rapid.T) {
			m.Logf("Done")
			m.Done()
			m.Model = nil
		}
	}
	return acts
}

func (m *Machine) actions(maxSize int, size func(t *rapid.T, label string) int) map[string]func(*rapid.T) {
	return map[string]func(*rapid.T){
		"": func(t *rapid.T) { m.Invariant(t) },
		"Write": func(t *rapid.T) {
			n := size(t, "n")
			data := m.Gen.Next(n)
			str := rapid.Bool().Draw(t, "asString")
			m.Logf("Write(%d)", n)
			var got int
			var err error
			if str {
				got, err = m.RB.WriteString(string(data))
			} else {
				got, err = m.RB.Write(data)
			}
			if got != n || err != nil {
				m.fail(t, "write", "Write of %d bytes returned (%d, %v)", n, got, err)
			}
			m.Model = append(m.Model, data...)
		},
		"WriteByte": func(t *rapid.T) {
			k := rapid.IntRange(1, 3).Draw(t, "times")
			for i := 0; i < k; i++ {
				b := m.Gen.Next(1)
				m.Logf("WriteByte")
				if err := m.RB.WriteByte(b[0]); err != nil {
					m.fail(t, "writebyte", "WriteByte returned %v", err)
				}
				m.Model = append(m.Model, b[0])
			}
		},
		"Read": func(t *rapid.T) {
			k := size(t, "k")
			p := make([]byte, k)
			m.Logf("Read(%d)", k)
			n, err := m.RB.Read(p)
			want := k
			if want > len(m.Model) {
				want = len(m.Model)
			}
			switch {
			case k == 0:
				if n != 0 || (err != nil && !(m.Lazy && len(m.Model) == 0)) {
					m.fail(t, "read0", "Read(empty slice) = (%d, %v)", n, err)
				}
			case len(m.Model) == 0:
				if n != 0 || err == nil {
					m.fail(t, "read-empty", "Read on an empty buffer = (%d, %v), want (0, error)", n, err)
				}
			default:
				if n != want || err != nil {
					m.fail(t, "read", "Read(%d) with %d buffered = (%d, %v), want (%d, nil)", k, len(m.Model), n, err, want)
				}
				if !bytes.Equal(p[:n], m.Model[:n]) {
					m.fail(t, "read-data", "Read(%d) returned wrong bytes (first difference at %d)", k, firstDiff(p[:n], m.Model[:n]))
				}
			}
			m.Model = m.Model[n:]
		},
		"ReadByte": func(t *rapid.T) {
			m.Logf("ReadByte")
			b, err := m.RB.ReadByte()
			if len(m.Model) == 0 {
				if err == nil {
					m.fail(t, "readbyte-empty", "ReadByte on an empty buffer returned %d, nil", b)
				}
				return
			}
			if err != nil || b != m.Model[0] {
				m.fail(t, "readbyte", "ReadByte = (%d, %v), want (%d, nil)", b, err, m.Model[0])
			}
			m.Model = m.Model[1:]
		},
		"Peek": func(t *rapid.T) {
			n := size(t, "n")
			if rapid.IntRange(0, 9).Draw(t, "neg") == 0 {
				n = -n
			}
			m.Logf("Peek(%d)", n)
			head, tail := m.RB.Peek(n)
			want := len(m.Model)
			if n > 0 && n < want {
				want = n
			}
			got := append(append([]byte(nil), head...), tail...)
			if !bytes.Equal(got, m.Model[:want]) {
				m.fail(t, "peek", "Peek(%d) with %d buffered returned %d+%d bytes, want the first %d (first difference at %d)", n, len(m.Model), len(head), len(tail), want, firstDiff(got, m.Model[:want]))
			}
		},
		"Discard": func(t *rapid.T) {
			n := size(t, "n")
			if rapid.IntRange(0, 9).Draw(t, "neg") == 0 {
				n = -n
			}
			m.Logf("Discard(%d)", n)
			d, err := m.RB.Discard(n)
			want := 0
			if n > 0 {
				want = n
				if want > len(m.Model) {
					want = len(m.Model)
				}
			}
			if d != want || (err != nil && !(m.Lazy && len(m.Model) == 0)) {
				m.fail(t, "discard", "Discard(%d) with %d buffered = (%d, %v), want (%d, nil)", n, len(m.Model), d, err, want)
			}
			m.Model = m.Model[want:]
		},
		"Bytes": func(t *rapid.T) {
			m.Logf("Bytes")
			b := m.RB.Bytes()
			if !bytes.Equal(b, m.Model) {
				m.fail(t, "bytes", "Bytes() returned %d bytes, model holds %d (first difference at %d)", len(b), len(m.Model), firstDiff(b, m.Model))
			}
			// the copy must be independent of the buffer
			for i := range b {
				b[i] ^= 0xff
			}
		},
		"ReadFrom": func(t *rapid.T) {
			r := vio.ReaderScript(t, "reader", &m.Gen, maxSize, m.bounds()...)
			m.Logf("ReadFrom(%s)", r)
			n, err := m.RB.ReadFrom(r)
			if n != int64(len(r.Got)) {
				m.fail(t, "readfrom-count", "ReadFrom reported %d bytes, the reader returned %d", n, len(r.Got))
			}
			if r.EndsWithError() {
				if !errors.Is(err, vio.ErrScripted) {
					m.fail(t, "readfrom-err", "ReadFrom returned %v, the reader failed with %v", err, vio.ErrScripted)
				}
			} else if err != nil {
				m.fail(t, "readfrom-err", "ReadFrom returned %v after a clean EOF", err)
			}
			m.Model = append(m.Model, r.Got...)
		},
		"WriteTo": func(t *rapid.T) {
			w := vio.WriterScript(t, "writer", maxSize, m.bounds()...)
			m.Logf("WriteTo(%s)", w)
			before := len(m.Model)
			n, err := m.RB.WriteTo(w)
			if before == 0 {
				if n != 0 || len(w.Accepted) != 0 {
					m.fail(t, "writeto-empty", "WriteTo on an empty buffer = (%d, %v), writer got %d bytes", n, err, len(w.Accepted))
				}
				return
			}
			if n != int64(len(w.Accepted)) {
				m.fail(t, "writeto-count", "WriteTo reported %d bytes, the writer accepted %d", n, len(w.Accepted))
			}
			if len(w.Accepted) > len(m.Model) || !bytes.Equal(w.Accepted, m.Model[:len(w.Accepted)]) {
				m.fail(t, "writeto-data", "the writer accepted %d bytes that are not the front of the content", len(w.Accepted))
			}
			// every offered chunk is the next unsent part of the content, in order
			off := 0
			for i, p := range w.Offered {
				if off+len(p) > len(m.Model) || !bytes.Equal(p, m.Model[off:off+len(p)]) {
					m.fail(t, "writeto-offer", "call %d offered %d bytes that are not content[%d:]", i, len(p), off)
				}
				acc := len(p)
				if i < len(w.Steps) && w.Steps[i].N < acc {
					acc = w.Steps[i].N
				}
				off += acc
			}
			if w.Failed {
				if err == nil {
					m.fail(t, "writeto-err", "the writer failed or was short but WriteTo returned nil")
				}
			} else {
				if err != nil || int(n) != before {
					m.fail(t, "writeto-drain", "a fully accepting writer got %d of %d bytes, err %v", n, before, err)
				}
			}
			m.Model = m.Model[len(w.Accepted):]
		},
		"Reset": func(t *rapid.T) {
			m.Logf("Reset")
			m.RB.Reset()
			m.Model = nil
		},
	}
}
