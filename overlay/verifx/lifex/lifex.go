// Package lifex runs generated connection life-cycle histories against a real
// engine: per connection a script of peer actions, handler directives (executed
// inside callbacks) and calls from other goroutines, including several close
// causes racing each other, a second wave of connections that re-uses the
// descriptor numbers of the first, and stale requests on closed connections.
// C04 (life cycle), C06 (shutdown) and C07 (descriptor ownership) judge the
// recorded history with their own oracles.
package lifex

import (
	"context"
	"errors"
	"fmt"
	"net"
	"os"
	"strconv"
	"strings"
	"sync"
	"sync/atomic"
	"time"

	"golang.org/x/sys/unix"
	"pgregory.net/rapid"

	gnet "github.com/panjf2000/gnet/v2"
	"github.com/panjf2000/gnet/v2/verifx/fx"
)

// StallBound bounds every wait for an effect.
const StallBound = 8 * time.Second

// Step is one step of a connection's director.
type Step struct {
	Kind string // p-send, p-close, p-reset, p-half, h (handler directive on the next OnTraffic), x-wake, x-close, x-closecb, x-asyncwrite, pause, burst
	N    int
	Dir  string // for h: none, consume, action-close, conn-close, closecb, loop-close, conn-close+task, write
	Sub  []Step // for burst: started concurrently
}

func (s Step) String() string {
	switch s.Kind {
	case "h":
		return fmt.Sprintf("h(%s %d)", s.Dir, s.N)
	case "burst":
		return fmt.Sprintf("burst%v", s.Sub)
	case "p-send", "x-asyncwrite", "pause":
		return fmt.Sprintf("%s(%d)", s.Kind, s.N)
	}
	return s.Kind
}

// ConnSpec describes one connection.
type ConnSpec struct {
	OnOpen     string // none, reply, action-close, conn-close, loop-close
	OnCloseDo  string // none, write, action-close
	Steps      []Step
	Dup        bool     // OnOpen duplicates the descriptor (Conn.Dup); the duplicate belongs to the user
	StalePokes []string // after OnClose (and after the second wave is up): x-wake, x-close, x-closecb, x-asyncwrite, x-asyncwritev
}

// Case is one session.
type Case struct {
	Cfg   fx.Cfg
	Wave1 []ConnSpec
	Wave2 int // number of plain connections opened after wave 1 has closed
	// KeepOpen: the second wave is still open when the engine is stopped; its OnClose returns Wave2OnClose
	KeepOpen     bool
	Wave2OnClose string // "", action-close, action-shutdown
}

func (c Case) String() string {
	var b strings.Builder
	fmt.Fprintf(&b, "cfg: %s\n", c.Cfg)
	for i, cs := range c.Wave1 {
		fmt.Fprintf(&b, " conn%d: OnOpen=%s OnClose=%s steps %v stale %v\n", i, cs.OnOpen, cs.OnCloseDo, cs.Steps, cs.StalePokes)
	}
	fmt.Fprintf(&b, " second wave: %d connections, open at stop: %v, OnClose=%s\n", c.Wave2, c.KeepOpen, c.Wave2OnClose)
	return b.String()
}

// ---- per-connection state ---------------------------------------------------------------

// Conn is the harness view of one connection.
type Conn struct {
	ID                             int
	Spec                           ConnSpec
	Wave                           int
	sess                           *Session
	GC                             gnet.Conn // the Conn value seen in OnOpen
	Fd                             int
	mu                             sync.Mutex
	dir                            *Step // pending handler directive
	dirDone                        chan struct{}
	Opens, Traffics, Closes        int32
	TrafficAfterClose, ForeignConn int32
	CloseErr                       error
	closedCh                       chan struct{}
	offered                        int64 // bytes offered to the handler so far
	LocalIssued, PeerIssued        int32
	Unexpected                     int64 // bytes the peer received that nobody wrote
	expectOut                      int64 // bytes the handler wrote (accepted)
	AsyncAfterClose                []error
	CBs                            int32 // CloseWithCallback callbacks seen
	CBIssued                       int32
	WakeAfterClose                 int32
	Fails                          []string
	LoopAtOpen                     gnet.EventLoop
	GoidAtOpen                     uint64
	InsideClose                    bool // a close was requested from inside a callback
	MultiCause                     bool
	LocalAtClose, PeerAtClose      bool // which kinds of close cause had been issued when OnClose ran
}

func (c *Conn) failf(key, f string, a ...any) {
	c.mu.Lock()
	if len(c.Fails) < 4 {
		c.Fails = append(c.Fails, fmt.Sprintf("VERIF-KEY:%s conn%d(fd %d): %s", key, c.ID, c.Fd, fmt.Sprintf(f, a...)))
	}
	c.mu.Unlock()
}

func (c *Conn) check(gc gnet.Conn, where string) {
	if c.GC != nil && gc != c.GC {
		atomic.AddInt32(&c.ForeignConn, 1)
		c.failf("life-identity", "%s was invoked with a different Conn value than OnOpen saw", where)
	}
	if g := fx.Goid(); c.GoidAtOpen != 0 && g != c.GoidAtOpen {
		c.failf("life-goroutine", "%s ran on goroutine %d, OnOpen ran on %d", where, g, c.GoidAtOpen)
	}
	if c.LoopAtOpen != nil && gc.EventLoop() != c.LoopAtOpen {
		c.failf("life-loop", "%s: the connection's event loop changed", where)
	}
}

func (c *Conn) OnOpen(gc gnet.Conn) ([]byte, gnet.Action) {
	if atomic.AddInt32(&c.Opens, 1) != 1 {
		c.failf("life-open-twice", "OnOpen invoked again")
	}
	c.GC = gc
	c.Fd = gc.Fd()
	c.LoopAtOpen = gc.EventLoop()
	c.GoidAtOpen = fx.Goid()
	c.sess.E.Log.Add(gc, c.ID, "open", "")
	atomic.AddInt32(&c.sess.opened, 1)
	if c.Spec.Dup && c.sess.Hooks.Canaries {
		if d, err := gc.Dup(); err == nil {
			var st unix.Stat_t
			_ = unix.Fstat(d, &st)
			c.sess.mu.Lock()
			c.sess.UserFds = append(c.sess.UserFds, UserFd{Fd: d, Ino: st.Ino, What: fmt.Sprintf("Conn.Dup of conn%d", c.ID), Of: c})
			c.sess.mu.Unlock()
		} else {
			c.failf("fd-dup", "Conn.Dup failed: %v", err)
		}
	}
	switch c.Spec.OnOpen {
	case "reply":
		atomic.AddInt64(&c.expectOut, 5)
		return []byte("hello"), gnet.None
	case "action-close":
		atomic.StoreInt32(&c.LocalIssued, 1)
		c.InsideClose = true
		return nil, gnet.Close
	case "conn-close":
		atomic.StoreInt32(&c.LocalIssued, 1)
		c.InsideClose = true
		_ = gc.Close()
	case "loop-close":
		atomic.StoreInt32(&c.LocalIssued, 1)
		c.InsideClose = true
		fd := gc.Fd()
		_ = gc.EventLoop().Close(gc)
		c.sess.placeCanary("on the loop right after EventLoop.Close inside OnOpen", fd)
	}
	return nil, gnet.None
}

func (c *Conn) OnTraffic(gc gnet.Conn) gnet.Action {
	if atomic.LoadInt32(&c.Closes) > 0 {
		atomic.AddInt32(&c.TrafficAfterClose, 1)
		c.failf("life-traffic-after-close", "OnTraffic after OnClose")
		return gnet.None
	}
	if atomic.LoadInt32(&c.Opens) == 0 {
		c.failf("life-traffic-before-open", "OnTraffic before OnOpen")
	}
	c.check(gc, "OnTraffic")
	atomic.AddInt32(&c.Traffics, 1)
	c.sess.E.Log.Add(gc, c.ID, "traffic", "")
	n := gc.InboundBuffered()
	_, _ = gc.Discard(-1)
	atomic.AddInt64(&c.offered, int64(n))
	c.mu.Lock()
	d := c.dir
	done := c.dirDone
	c.dir, c.dirDone = nil, nil
	c.mu.Unlock()
	act := gnet.None
	if d != nil {
		switch d.Dir {
		case "action-close":
			atomic.StoreInt32(&c.LocalIssued, 1)
			c.InsideClose = true
			act = gnet.Close
		case "conn-close":
			atomic.StoreInt32(&c.LocalIssued, 1)
			c.InsideClose = true
			_ = gc.Close()
		case "closecb":
			atomic.StoreInt32(&c.LocalIssued, 1)
			c.InsideClose = true
			atomic.AddInt32(&c.CBIssued, 1)
			_ = gc.CloseWithCallback(c.closeCB)
		case "conn-close+task":
			// Close() followed by a task: when this OnTraffic belongs to an edge-triggered read that
			// filled the buffer, the loop queues a re-read behind both; the task runs in between, on a
			// loop that has just released the descriptor number, and puts readable bait there.
			atomic.StoreInt32(&c.LocalIssued, 1)
			c.InsideClose = true
			fd := gc.Fd()
			_ = gc.Close()
			_ = gc.EventLoop().Execute(context.Background(), gnet.RunnableFunc(func(context.Context) error {
				if c.Closed() {
					c.sess.placeCanary("by a task queued right behind Conn.Close inside OnTraffic", fd)
				}
				return nil
			}))
		case "loop-close":
			atomic.StoreInt32(&c.LocalIssued, 1)
			c.InsideClose = true
			fd := gc.Fd()
			_ = gc.EventLoop().Close(gc)
			c.sess.placeCanary("on the loop right after EventLoop.Close inside OnTraffic", fd)
		case "write":
			// a write on a connection the peer may already have reset
			p := make([]byte, d.N)
			if w, err := gc.Write(p); err == nil {
				atomic.AddInt64(&c.expectOut, int64(w))
			} else {
				atomic.StoreInt32(&c.PeerIssued, 1)
			}
		}
		close(done)
	}
	return act
}

func (c *Conn) closeCB(gc gnet.Conn, err error) error {
	if atomic.AddInt32(&c.CBs, 1) == 1 {
		// runs on the loop right after the close was carried out: the descriptor number is free now
		c.sess.placeCanary("on the loop inside the CloseWithCallback callback", c.Fd)
	}
	return nil
}

func (c *Conn) OnClose(gc gnet.Conn, err error) gnet.Action {
	if atomic.AddInt32(&c.Closes, 1) != 1 {
		c.failf("life-close-twice", "OnClose invoked again (err %v)", err)
		return gnet.None
	}
	if atomic.LoadInt32(&c.Opens) == 0 {
		c.failf("life-close-without-open", "OnClose without OnOpen")
	}
	c.check(gc, "OnClose")
	c.LocalAtClose = atomic.LoadInt32(&c.LocalIssued) == 1
	c.PeerAtClose = atomic.LoadInt32(&c.PeerIssued) == 1
	c.CloseErr = err
	c.sess.E.Log.Add(gc, c.ID, "close", fmt.Sprint(err))
	atomic.AddInt32(&c.sess.closed, 1)
	act := gnet.None
	switch c.Spec.OnCloseDo {
	case "write":
		_, _ = gc.Write([]byte("bye")) // may fail; must not re-enter OnClose
		// whether the 3 bytes arrive depends on the state of the connection
		atomic.AddInt64(&c.expectOut, 3)
	case "action-close":
		act = gnet.Close
	case "action-shutdown":
		act = gnet.Shutdown
	}
	close(c.closedCh)
	return act
}

// Closed reports whether OnClose has been seen.
func (c *Conn) Closed() bool {
	select {
	case <-c.closedCh:
		return true
	default:
		return false
	}
}

// ---- canaries ---------------------------------------------------------------------------------

// Canary is a harness-owned socket pair placed on descriptor numbers the
// framework has just released: nobody but the harness may read, write or close it.
type Canary struct {
	A, B    int // A holds Pattern unread; B is its peer
	Ino     uint64
	Pattern []byte
	Where   string
}

func newCanary(where string) (*Canary, error) {
	fds, err := unix.Socketpair(unix.AF_UNIX, unix.SOCK_STREAM|unix.SOCK_NONBLOCK|unix.SOCK_CLOEXEC, 0)
	if err != nil {
		return nil, err
	}
	var st unix.Stat_t
	if err := unix.Fstat(fds[0], &st); err != nil {
		unix.Close(fds[0])
		unix.Close(fds[1])
		return nil, err
	}
	c := &Canary{A: fds[0], B: fds[1], Ino: st.Ino, Where: where}
	c.Pattern = []byte(fmt.Sprintf("canary-%d-%d-%s", fds[0], fds[1], where))
	if _, err := unix.Write(c.B, c.Pattern); err != nil {
		unix.Close(fds[0])
		unix.Close(fds[1])
		return nil, err
	}
	// and B readable too, with its own content
	if _, err := unix.Write(c.A, []byte("b-side")); err != nil {
		unix.Close(fds[0])
		unix.Close(fds[1])
		return nil, err
	}
	return c, nil
}

// Verify checks that nobody touched the canary, then closes it.
func (c *Canary) Verify() string {
	defer unix.Close(c.A)
	defer unix.Close(c.B)
	var st unix.Stat_t
	if err := unix.Fstat(c.A, &st); err != nil || st.Ino != c.Ino {
		return fmt.Sprintf("descriptor %d (placed %s) was closed by someone else (fstat: %v)", c.A, c.Where, err)
	}
	if err := unix.Fstat(c.B, &st); err != nil {
		return fmt.Sprintf("descriptor %d (placed %s) was closed by someone else (fstat: %v)", c.B, c.Where, err)
	}
	buf := make([]byte, 256)
	n, _ := unix.Read(c.A, buf)
	if n < 0 {
		n = 0
	}
	if string(buf[:n]) != string(c.Pattern) {
		return fmt.Sprintf("descriptor %d (placed %s): its unread content changed from %q to %q - someone read from or wrote to the pair", c.A, c.Where, c.Pattern, buf[:n])
	}
	n, _ = unix.Read(c.B, buf)
	if n < 0 {
		n = 0
	}
	if string(buf[:n]) != "b-side" {
		return fmt.Sprintf("descriptor %d (placed %s): its unread content changed to %q - someone read from or wrote to the pair", c.B, c.Where, buf[:n])
	}
	return ""
}

func (s *Session) placeCanary(where string, wantFd int) {
	if !s.Hooks.Canaries && !(s.Hooks.Bait && (strings.HasPrefix(where, "by a task") || strings.HasPrefix(where, "on the loop right after EventLoop.Close inside OnTraffic"))) {
		return
	}
	// grab a few pairs; keep the ones that landed on interesting numbers (or the first)
	var keep *Canary
	var spare []*Canary
	for i := 0; i < 4; i++ {
		c, err := newCanary(where)
		if err != nil {
			break
		}
		if c.A == wantFd || c.B == wantFd {
			keep = c
			break
		}
		spare = append(spare, c)
	}
	for i, c := range spare {
		if keep == nil && i == 0 {
			keep = c
			continue
		}
		unix.Close(c.A)
		unix.Close(c.B)
	}
	if keep != nil {
		s.mu.Lock()
		s.Canaries = append(s.Canaries, keep)
		if keep.A == wantFd || keep.B == wantFd {
			s.CanaryHits++
		}
		s.mu.Unlock()
	}
}

// ---- session ----------------------------------------------------------------------------------

// Session is one executed case.
type Session struct {
	Case           Case
	E              *fx.Engine
	Conns          []*Conn
	opened, closed int32
	mu             sync.Mutex
	Fails          []string
	Stalls         []string
	Infra          string
	CountChecks    int
	Hooks          Hooks
	Canaries       []*Canary
	CanaryHits     int // canaries that landed exactly on a just-released descriptor number
	UserFds        []UserFd
	PolledChecks   int
	AfterStopPokes int
}

// UserFd is a descriptor handed to the user (Dup / DupListener).
type UserFd struct {
	Fd   int
	Ino  uint64
	What string
	Of   *Conn // the connection a Conn.Dup descriptor was taken from
}

// PolledInodes lists, per inode, the entries of every epoll instance of this
// process (/proc/self/fdinfo of the eventpoll descriptors).
func PolledInodes() map[uint64][]string {
	out := map[uint64][]string{}
	ents, _ := os.ReadDir("/proc/self/fd")
	for _, e := range ents {
		if t, err := os.Readlink("/proc/self/fd/" + e.Name()); err != nil || t != "anon_inode:[eventpoll]" {
			continue
		}
		b, err := os.ReadFile("/proc/self/fdinfo/" + e.Name())
		if err != nil {
			continue
		}
		for _, ln := range strings.Split(string(b), "\n") {
			if !strings.HasPrefix(ln, "tfd:") {
				continue
			}
			f := strings.Fields(strings.ReplaceAll(ln, ":", ": "))
			tfd, ino := "?", uint64(0)
			for i := 0; i+1 < len(f); i++ {
				switch f[i] {
				case "tfd:":
					tfd = f[i+1]
				case "ino:":
					ino, _ = strconv.ParseUint(f[i+1], 16, 64)
				}
			}
			out[ino] = append(out[ino], "epoll fd "+e.Name()+" entry tfd "+tfd)
		}
	}
	return out
}

// VerifyNotPolled: a socket whose connection the framework has closed, and that
// stays alive only through the descriptor Conn.Dup handed to the user, must no
// longer be in any epoll set (close(2) alone does not remove it then).
func (s *Session) VerifyNotPolled() {
	s.mu.Lock()
	ufs := append([]UserFd(nil), s.UserFds...)
	s.mu.Unlock()
	for _, u := range ufs {
		if u.Of == nil || !u.Of.Closed() {
			continue
		}
		var where []string
		if !waitFor(func() bool { where = PolledInodes()[u.Ino]; return len(where) == 0 }, 2*time.Second) {
			s.addFail(fmt.Sprintf("VERIF-KEY:fd-polled-after-close conn%d (fd %d) was closed by the framework, but its socket (kept alive by the user's %s, fd %d) is still polled: %s", u.Of.ID, u.Of.Fd, u.What, u.Fd, strings.Join(where, "; ")))
		}
		s.PolledChecks++
	}
}

// VerifyUserFds checks that descriptors handed to the user are still open on the
// same object, then closes them.
func (s *Session) VerifyUserFds() {
	for _, u := range s.UserFds {
		var st unix.Stat_t
		if err := unix.Fstat(u.Fd, &st); err != nil || st.Ino != u.Ino {
			s.addFail(fmt.Sprintf("VERIF-KEY:fd-user-closed the descriptor %d returned by %s was closed by the framework (fstat: %v)", u.Fd, u.What, err))
			continue
		}
		unix.Close(u.Fd)
	}
	s.UserFds = nil
}

// Hooks let a check observe or steer a session.
type Hooks struct {
	EngineHooks fx.EngineHooks
	// AfterWave1 runs when all first-wave connections have been closed.
	AfterWave1 func(s *Session)
	// BeforeStop runs right before the engine is stopped.
	BeforeStop func(s *Session)
	// AfterStop runs after Run returned.
	AfterStop func(s *Session)
	NoStop    bool
	// Canaries: place harness-owned socket pairs on descriptor numbers the framework just released.
	Canaries bool
	// Bait: only the canaries that a "conn-close+task" directive places (a stale re-read would consume them).
	Bait bool
}

func (s *Session) addFail(f string)  { s.mu.Lock(); s.Fails = append(s.Fails, f); s.mu.Unlock() }
func (s *Session) addStall(f string) { s.mu.Lock(); s.Stalls = append(s.Stalls, f); s.mu.Unlock() }

func waitFor(cond func() bool, d time.Duration) bool {
	dl := time.Now().Add(d)
	for !cond() {
		if time.Now().After(dl) {
			return false
		}
		time.Sleep(50 * time.Microsecond)
	}
	return true
}

// peerIO keeps reading the peer side so that unexpected bytes are noticed.
type peerIO struct {
	c   net.Conn
	got int64
	eof int32
}

func (p *peerIO) reader() {
	buf := make([]byte, 4096)
	for {
		n, err := p.c.Read(buf)
		atomic.AddInt64(&p.got, int64(n))
		if err != nil {
			atomic.StoreInt32(&p.eof, 1)
			return
		}
	}
}

func (s *Session) exec(c *Conn, p *peerIO, st Step, wg *sync.WaitGroup) {
	gc := c.GC
	switch st.Kind {
	case "p-send":
		if c.Closed() {
			return
		}
		base := atomic.LoadInt64(&c.offered)
		_ = p.c.SetWriteDeadline(time.Now().Add(2 * time.Second))
		if _, err := p.c.Write(make([]byte, st.N)); err != nil {
			return
		}
		if !waitFor(func() bool { return atomic.LoadInt64(&c.offered) >= base+int64(st.N) || c.Closed() }, StallBound) {
			s.addStall(fmt.Sprintf("VERIF-KEY:life-stall conn%d: %d bytes sent by the peer were not offered to OnTraffic within %v", c.ID, st.N, StallBound))
		}
	case "p-close":
		atomic.StoreInt32(&c.PeerIssued, 1)
		p.c.Close()
	case "p-reset":
		atomic.StoreInt32(&c.PeerIssued, 1)
		if tc, ok := p.c.(*net.TCPConn); ok {
			_ = tc.SetLinger(0)
		}
		p.c.Close()
	case "p-half":
		atomic.StoreInt32(&c.PeerIssued, 1)
		if cw, ok := p.c.(interface{ CloseWrite() error }); ok {
			_ = cw.CloseWrite()
		}
	case "h":
		if c.Closed() {
			return
		}
		done := make(chan struct{})
		stc := st
		c.mu.Lock()
		c.dir, c.dirDone = &stc, done
		c.mu.Unlock()
		// make an OnTraffic happen: one byte from the peer, or a Wake when the peer is gone
		_ = p.c.SetWriteDeadline(time.Now().Add(time.Second))
		trig := 1
		if st.Dir != "write" && st.N > 1 {
			trig = st.N // the directive runs in the callback of a read of this size
		}
		if _, err := p.c.Write(make([]byte, trig)); err != nil && gc != nil {
			_ = gc.Wake(nil)
		}
		select {
		case <-done:
		case <-c.closedCh:
		case <-time.After(StallBound):
			if !c.Closed() {
				s.addStall(fmt.Sprintf("VERIF-KEY:life-stall conn%d: no OnTraffic within %v of a byte sent by the peer", c.ID, StallBound))
			}
		}
	case "x-wake":
		if gc != nil {
			_ = gc.Wake(nil)
		}
	case "x-close":
		if gc != nil {
			atomic.StoreInt32(&c.LocalIssued, 1)
			_ = gc.Close()
		}
	case "x-closecb":
		if gc != nil {
			atomic.StoreInt32(&c.LocalIssued, 1)
			atomic.AddInt32(&c.CBIssued, 1)
			_ = gc.CloseWithCallback(c.closeCB)
		}
	case "x-asyncwrite":
		if gc != nil {
			n := st.N
			_ = gc.AsyncWrite(make([]byte, n), func(_ gnet.Conn, err error) error {
				if err == nil {
					atomic.AddInt64(&c.expectOut, int64(n))
				}
				return nil
			})
		}
	case "pause":
		time.Sleep(time.Duration(st.N) * time.Microsecond)
	case "burst":
		c.MultiCause = true
		var bw sync.WaitGroup
		for _, sub := range st.Sub {
			bw.Add(1)
			go func(sub Step) { defer bw.Done(); s.exec(c, p, sub, wg) }(sub)
		}
		bw.Wait()
	}
}

// Run executes a case.
func Run(cs Case, hooks Hooks) *Session {
	s := &Session{Case: cs, Hooks: hooks}
	e, err := fx.Start(cs.Cfg, hooks.EngineHooks)
	if err != nil {
		s.Infra = err.Error()
		return s
	}
	s.E = e
	stopped := false
	stop := func() {
		if stopped {
			return
		}
		stopped = true
		if hooks.Canaries {
			s.VerifyNotPolled()
		}
		if hooks.BeforeStop != nil {
			hooks.BeforeStop(s)
		}
		if !hooks.NoStop {
			if err := e.Stop(); err != nil {
				s.addFail("VERIF-KEY:life-stop engine stop: " + err.Error())
			}
		}
		for _, p := range e.Logger.Panics() {
			s.addFail("VERIF-KEY:panic-logged " + p)
		}
		if hooks.Canaries && !hooks.NoStop {
			// the engine is gone: the numbers of its epoll and eventfd descriptors are free again. Canaries
			// take them, then requests are made on the connection handles the application still holds.
			var extra []*Canary
			for i := 0; i < 12; i++ {
				if cn, err := newCanary("after the engine stopped"); err == nil {
					extra = append(extra, cn)
				}
			}
			for _, c := range s.Conns {
				if c.GC != nil {
					_ = c.GC.Wake(nil)
					_ = c.GC.AsyncWrite([]byte("late"), nil)
					_ = c.GC.Close()
				}
			}
			time.Sleep(time.Millisecond)
			for _, cn := range extra {
				if msg := cn.Verify(); msg != "" {
					s.addFail("VERIF-KEY:fd-canary-after-stop " + msg)
				}
			}
			s.AfterStopPokes += len(s.Conns)
		}
		for _, cn := range s.Canaries {
			if msg := cn.Verify(); msg != "" {
				s.addFail("VERIF-KEY:fd-canary " + msg)
			}
		}
		s.VerifyUserFds()
		if hooks.AfterStop != nil {
			hooks.AfterStop(s)
		}
	}
	defer stop()

	connect := func(spec ConnSpec, wave int) (*Conn, *peerIO, bool) {
		c := &Conn{ID: len(s.Conns), Spec: spec, Wave: wave, sess: s, closedCh: make(chan struct{})}
		s.Conns = append(s.Conns, c)
		peer, gc, err := e.Connect(c)
		if err != nil {
			if strings.Contains(err.Error(), fx.ErrInfra.Error()) {
				s.Infra = err.Error()
			} else {
				s.addFail("VERIF-KEY:life-connect " + err.Error())
			}
			return c, nil, false
		}
		_ = gc
		p := &peerIO{c: peer}
		go p.reader()
		return c, p, true
	}
	countCheck := func(where string) {
		if cs.Cfg.Client {
			return
		}
		// quiescent: every request issued so far has taken effect
		want := int(atomic.LoadInt32(&s.opened) - atomic.LoadInt32(&s.closed))
		if !waitFor(func() bool {
			return e.Eng.CountConnections() == int(atomic.LoadInt32(&s.opened)-atomic.LoadInt32(&s.closed))
		}, 2*time.Second) {
			s.addFail(fmt.Sprintf("VERIF-KEY:life-count %s: CountConnections() = %d, but %d connections were opened and not yet closed", where, e.Eng.CountConnections(), want))
		}
		s.CountChecks++
	}

	// ---- wave 1 ----
	var wg sync.WaitGroup
	type cp struct {
		c *Conn
		p *peerIO
	}
	var w1 []cp
	for _, spec := range cs.Wave1 {
		c, p, ok := connect(spec, 1)
		if !ok {
			return s
		}
		w1 = append(w1, cp{c, p})
	}
	for _, x := range w1 {
		wg.Add(1)
		go func(c *Conn, p *peerIO) {
			defer wg.Done()
			for _, st := range c.Spec.Steps {
				s.exec(c, p, st, &wg)
			}
			// make sure the connection ends: without any cause so far the peer closes
			if !c.Closed() && atomic.LoadInt32(&c.LocalIssued) == 0 && atomic.LoadInt32(&c.PeerIssued) == 0 {
				atomic.StoreInt32(&c.PeerIssued, 1)
				p.c.Close()
			}
			select {
			case <-c.closedCh:
				s.placeCanary("by another goroutine right after OnClose", c.Fd)
			case <-time.After(StallBound):
				s.addStall(fmt.Sprintf("VERIF-KEY:life-noclose conn%d: OnOpen was seen but no OnClose within %v of its close cause(s) (local %v, peer %v)", c.ID, StallBound, atomic.LoadInt32(&c.LocalIssued) == 1, atomic.LoadInt32(&c.PeerIssued) == 1))
			}
			p.c.Close()
		}(x.c, x.p)
	}
	wg.Wait()
	countCheck("after the first wave closed")
	if hooks.AfterWave1 != nil {
		hooks.AfterWave1(s)
	}

	// ---- wave 2: fresh connections that get the descriptor numbers of wave 1 ----
	var w2 []cp
	for i := 0; i < cs.Wave2; i++ {
		c, p, ok := connect(ConnSpec{OnCloseDo: cs.Wave2OnClose}, 2)
		if !ok {
			return s
		}
		w2 = append(w2, cp{c, p})
	}
	countCheck("after the second wave opened")
	// stale requests on closed first-wave connections
	var staleWG sync.WaitGroup
	for _, x := range w1 {
		c := x.c
		if c.GC == nil {
			continue
		}
		for _, poke := range c.Spec.StalePokes {
			switch poke {
			case "x-wake":
				staleWG.Add(1)
				if err := c.GC.Wake(func(gnet.Conn, error) error { staleWG.Done(); return nil }); err != nil {
					staleWG.Done()
				}
			case "x-close":
				_ = c.GC.Close()
			case "x-closecb":
				staleWG.Add(1)
				if err := c.GC.CloseWithCallback(func(gnet.Conn, error) error { staleWG.Done(); return nil }); err != nil {
					staleWG.Done()
				}
			case "x-asyncwrite":
				staleWG.Add(1)
				if err := c.GC.AsyncWrite([]byte("stale-write"), func(_ gnet.Conn, err error) error {
					c.mu.Lock()
					c.AsyncAfterClose = append(c.AsyncAfterClose, err)
					c.mu.Unlock()
					staleWG.Done()
					return nil
				}); err != nil {
					staleWG.Done()
				}
			case "x-asyncwritev":
				staleWG.Add(1)
				if err := c.GC.AsyncWritev([][]byte{[]byte("stale-"), []byte("writev")}, func(_ gnet.Conn, err error) error {
					c.mu.Lock()
					c.AsyncAfterClose = append(c.AsyncAfterClose, err)
					c.mu.Unlock()
					staleWG.Done()
					return nil
				}); err != nil {
					staleWG.Done()
				}
			}
		}
	}
	staleDone := make(chan struct{})
	go func() { staleWG.Wait(); close(staleDone) }()
	select {
	case <-staleDone:
	case <-time.After(StallBound):
		s.addStall(fmt.Sprintf("VERIF-KEY:life-stale-callback callbacks of requests on closed connections did not run within %v", StallBound))
	}
	// a round trip on every second-wave connection flushes anything a stale request wrote
	for _, x := range w2 {
		s.exec(x.c, x.p, Step{Kind: "p-send", N: 1}, nil)
	}
	time.Sleep(2 * time.Millisecond)
	for _, x := range w1 {
		for _, err := range x.c.AsyncAfterClose {
			if !errors.Is(err, net.ErrClosed) {
				s.addFail(fmt.Sprintf("VERIF-KEY:life-stale-async conn%d: an asynchronous write on the closed connection completed with %v, want a closed-connection error", x.c.ID, err))
			}
		}
	}
	for _, x := range w2 {
		if atomic.LoadInt32(&x.c.Closes) != 0 {
			s.addFail(fmt.Sprintf("VERIF-KEY:life-stale-hit conn%d (second wave, fd %d): closed by a request aimed at an already closed connection", x.c.ID, x.c.Fd))
		}
		if n := atomic.LoadInt64(&x.p.got); n != 0 {
			s.addFail(fmt.Sprintf("VERIF-KEY:life-stale-hit conn%d (second wave, fd %d): its peer received %d bytes nobody wrote to it", x.c.ID, x.c.Fd, n))
		}
		if t := atomic.LoadInt32(&x.c.Traffics); t > 1 {
			s.addFail(fmt.Sprintf("VERIF-KEY:life-stale-hit conn%d (second wave, fd %d): %d OnTraffic calls for one byte of traffic", x.c.ID, x.c.Fd, t))
		}
	}
	countCheck("after stale requests")
	if cs.KeepOpen && len(w2) > 0 {
		// engine shutdown with open connections: every one of them gets its OnClose before Run returns
		for _, x := range w2 {
			atomic.StoreInt32(&x.c.LocalIssued, 1) // the shutdown is a local cause
		}
		stop()
		for _, x := range w2 {
			if atomic.LoadInt32(&x.c.Closes) != 1 {
				s.addFail(fmt.Sprintf("VERIF-KEY:life-noclose-at-shutdown conn%d (fd %d) was open when the engine was stopped: %d OnClose calls by the time Run returned", x.c.ID, x.c.Fd, atomic.LoadInt32(&x.c.Closes)))
			} else if x.c.CloseErr != nil {
				s.addFail(fmt.Sprintf("VERIF-KEY:life-close-err conn%d: closed by the engine shutdown but OnClose reported %v", x.c.ID, x.c.CloseErr))
			}
			x.p.c.Close()
		}
		for _, c := range s.Conns {
			c.mu.Lock()
			s.Fails = append(s.Fails, c.Fails...)
			c.mu.Unlock()
		}
		return s
	}
	// close wave 2 from the peer side
	for _, x := range w2 {
		atomic.StoreInt32(&x.c.PeerIssued, 1)
		x.p.c.Close()
	}
	for _, x := range w2 {
		select {
		case <-x.c.closedCh:
		case <-time.After(StallBound):
			s.addStall(fmt.Sprintf("VERIF-KEY:life-noclose conn%d (second wave): no OnClose within %v of the peer's close", x.c.ID, StallBound))
		}
	}
	countCheck("after everything closed")
	stop()
	for _, c := range s.Conns {
		c.mu.Lock()
		s.Fails = append(s.Fails, c.Fails...)
		c.mu.Unlock()
	}
	return s
}

// ---- generation -----------------------------------------------------------------------------

var closeDirs = []string{"action-close", "conn-close", "closecb", "loop-close", "conn-close+task"}

func drawCause(t *rapid.T) Step {
	switch rapid.IntRange(0, 9).Draw(t, "cause") {
	case 0:
		return Step{Kind: "p-close"}
	case 1:
		return Step{Kind: "p-reset"}
	case 2:
		return Step{Kind: "p-half"}
	case 3, 4:
		return Step{Kind: "h", Dir: rapid.SampledFrom(closeDirs).Draw(t, "dir"), N: rapid.SampledFrom([]int{1, 1, 1024, 2048, 4096, 70000}).Draw(t, "trigger")}
	case 5:
		return Step{Kind: "x-close"}
	case 6:
		return Step{Kind: "x-closecb"}
	case 7:
		return Step{Kind: "x-wake"}
	case 8:
		return Step{Kind: "x-asyncwrite", N: rapid.SampledFrom([]int{1, 100, 70000}).Draw(t, "n")}
	default:
		return Step{Kind: "h", Dir: "write", N: rapid.SampledFrom([]int{1, 5000, 200000}).Draw(t, "n")}
	}
}

// DrawConn draws one connection history.
func DrawConn(t *rapid.T) ConnSpec {
	var c ConnSpec
	c.OnOpen = rapid.SampledFrom([]string{"", "", "", "", "reply", "action-close", "conn-close", "loop-close"}).Draw(t, "onOpen")
	c.OnCloseDo = rapid.SampledFrom([]string{"", "", "", "write", "action-close"}).Draw(t, "onClose")
	c.Dup = rapid.IntRange(0, 4).Draw(t, "dup") == 0
	n := rapid.IntRange(0, 6).Draw(t, "steps")
	for i := 0; i < n; i++ {
		switch rapid.IntRange(0, 7).Draw(t, "step") {
		case 0, 1:
			c.Steps = append(c.Steps, Step{Kind: "p-send", N: rapid.SampledFrom([]int{1, 100, 5000, 100000}).Draw(t, "n")})
		case 2:
			c.Steps = append(c.Steps, Step{Kind: "pause", N: rapid.SampledFrom([]int{50, 500, 3000}).Draw(t, "us")})
		case 3:
			k := rapid.IntRange(2, 3).Draw(t, "burst")
			var sub []Step
			hs := 0
			for j := 0; j < k; j++ {
				st := drawCause(t)
				if st.Kind == "h" {
					// one handler directive at a time: a second one becomes a request from another goroutine
					if hs++; hs > 1 {
						st = Step{Kind: rapid.SampledFrom([]string{"x-close", "x-closecb", "p-close", "p-reset"}).Draw(t, "instead")}
					}
				}
				sub = append(sub, st)
			}
			c.Steps = append(c.Steps, Step{Kind: "burst", Sub: sub})
		case 4:
			c.Steps = append(c.Steps, Step{Kind: "h", Dir: rapid.SampledFrom([]string{"none", "consume"}).Draw(t, "dir")})
		default:
			c.Steps = append(c.Steps, drawCause(t))
		}
	}
	np := rapid.IntRange(0, 3).Draw(t, "stale")
	for i := 0; i < np; i++ {
		c.StalePokes = append(c.StalePokes, rapid.SampledFrom([]string{"x-wake", "x-close", "x-closecb", "x-asyncwrite", "x-asyncwritev"}).Draw(t, "poke"))
	}
	return c
}

// DrawCase draws a session.
func DrawCase(t *rapid.T, o fx.DrawOpt) Case {
	var cs Case
	cs.Cfg = fx.DrawCfg(t, o)
	cs.Cfg.RcvBuf = 0 // a tiny receive window only slows the sessions down
	n := rapid.IntRange(1, 5).Draw(t, "conns")
	for i := 0; i < n; i++ {
		cs.Wave1 = append(cs.Wave1, DrawConn(t))
	}
	cs.Wave2 = rapid.IntRange(0, 4).Draw(t, "wave2")
	if rapid.IntRange(0, 3).Draw(t, "keepOpen") == 0 {
		cs.KeepOpen = true
		cs.Wave2 = rapid.IntRange(1, 6).Draw(t, "openAtStop")
		cs.Wave2OnClose = rapid.SampledFrom([]string{"", "action-close", "action-shutdown"}).Draw(t, "wave2OnClose")
	}
	return cs
}
