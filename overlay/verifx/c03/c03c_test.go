// C03, layer B, ready storms: requests issued while far more descriptors are ready
// on a loop than one epoll_wait batch can report (the event list doubles from 128
// up to 1024 and shrinks again, and the eventfd's edge may arrive in a full batch).
package c03

import (
	"context"
	"fmt"
	"net"
	"sync"
	"sync/atomic"
	"testing"
	"time"

	"pgregory.net/rapid"

	gnet "github.com/panjf2000/gnet/v2"
	"github.com/panjf2000/gnet/v2/verifx/fx"
	"github.com/panjf2000/gnet/v2/verifx/vstat"
)

type gateConn struct {
	gc     gnet.Conn
	parked chan struct{}
	open   chan struct{}
}

func (g *gateConn) OnOpen(gc gnet.Conn) ([]byte, gnet.Action) { g.gc = gc; return nil, gnet.None }
func (g *gateConn) OnClose(gnet.Conn, error) gnet.Action      { return gnet.None }
func (g *gateConn) OnTraffic(gc gnet.Conn) gnet.Action {
	_, _ = gc.Discard(-1)
	g.parked <- struct{}{}
	<-g.open // the loop stands still: everything that happens meanwhile is ready at once afterwards
	return gnet.None
}

type stormConn struct {
	gc  gnet.Conn
	got *int64
}

func (c *stormConn) OnOpen(gc gnet.Conn) ([]byte, gnet.Action) { c.gc = gc; return nil, gnet.None }
func (c *stormConn) OnClose(gnet.Conn, error) gnet.Action      { return gnet.None }
func (c *stormConn) OnTraffic(gc gnet.Conn) gnet.Action {
	n, _ := gc.Discard(-1)
	atomic.AddInt64(c.got, int64(n))
	return gnet.None
}

func TestC03ReadyStorm(t *testing.T) {
	st := vstat.New("C03.engine_ready_storm")
	defer st.Flush()
	rapid.Check(t, func(t *rapid.T) {
		cfg := fx.DrawCfg(t, fx.DrawOpt{ServerOnly: true, MaxLoops: 1})
		cfg.RcvBuf, cfg.SndBuf, cfg.Ticker = 0, 0, false
		n := rapid.SampledFrom([]int{60, 127, 128, 140, 300, 520, 1023, 1024, 1030, 1300, 2100, 2100, 2600}).Draw(t, "readyConnections")
		// the requests are issued after this share of the connections has become readable, so that the
		// eventfd's edge lies somewhere inside the sequence of batches (128, 256, 512, 1024, 1024, ...)
		reqAt := rapid.SampledFrom([]int{0, 30, 45, 60, 100}).Draw(t, "requestsAfterPercent")
		rounds := rapid.IntRange(2, 5).Draw(t, "rounds")
		nreq := rapid.IntRange(1, 6).Draw(t, "requestsPerRound")
		e, err := fx.Start(cfg, fx.EngineHooks{})
		if err != nil {
			t.Fatalf("VERIF-INFRA %v", err)
		}
		defer func() { _ = e.Stop() }()
		gate := &gateConn{parked: make(chan struct{}, 1), open: make(chan struct{})}
		gp, _, err := e.Connect(gate)
		if err != nil {
			t.Fatalf("VERIF-INFRA %v", err)
		}
		defer gp.Close()
		var got int64
		storm := make([]*stormConn, n)
		peers := make([]net.Conn, n)
		for i := range storm {
			storm[i] = &stormConn{got: &got}
			p, _, err := e.Connect(storm[i])
			if err != nil {
				for _, q := range peers[:i] {
					q.Close()
				}
				t.Fatalf("VERIF-INFRA %v", err)
			}
			peers[i] = p
		}
		defer func() {
			for _, p := range peers {
				p.Close()
			}
		}()
		var done, issued int64
		lost := ""
		for r := 0; r < rounds && lost == ""; r++ {
			// park the loop inside a callback
			if _, err := gp.Write([]byte{1}); err != nil {
				t.Fatalf("VERIF-INFRA gate write: %v", err)
			}
			select {
			case <-gate.parked:
			case <-time.After(stall):
				t.Fatalf("VERIF-KEY:async-stall round %d: the gate connection's byte produced no OnTraffic within %v\ncfg: %s", r, stall, cfg)
			}
			// every storm connection becomes readable, and requests are issued, while the loop stands still
			k := n
			if r%2 == 1 {
				k = n / 2 // the event list shrinks again
			}
			storm1 := k * reqAt / 100
			for _, p := range peers[:storm1] {
				if _, err := p.Write([]byte{7}); err != nil {
					t.Fatalf("VERIF-INFRA storm write: %v", err)
				}
			}
			var wg sync.WaitGroup
			for q := 0; q < nreq; q++ {
				wg.Add(1)
				go func(q int) {
					defer wg.Done()
					var err error
					switch q % 3 {
					case 0:
						err = storm[(q*131+r)%n].gc.Wake(func(gnet.Conn, error) error { atomic.AddInt64(&done, 1); return nil })
					case 1:
						err = gate.gc.EventLoop().Execute(context.Background(), gnet.RunnableFunc(func(context.Context) error { atomic.AddInt64(&done, 1); return nil }))
					default:
						err = storm[(q*17+r)%n].gc.AsyncWrite([]byte("x"), func(gnet.Conn, error) error { atomic.AddInt64(&done, 1); return nil })
					}
					if err == nil {
						atomic.AddInt64(&issued, 1)
					}
				}(q)
			}
			wg.Wait()
			for _, p := range peers[storm1:k] {
				if _, err := p.Write([]byte{7}); err != nil {
					t.Fatalf("VERIF-INFRA storm write: %v", err)
				}
			}
			wantBytes := atomic.LoadInt64(&got) + int64(k)
			gate.open <- struct{}{}
			dl := time.Now().Add(stall)
			for atomic.LoadInt64(&done) < atomic.LoadInt64(&issued) || atomic.LoadInt64(&got) < wantBytes {
				if time.Now().After(dl) {
					before, bytesBefore := atomic.LoadInt64(&done), atomic.LoadInt64(&got)
					_, _ = peers[0].Write([]byte{9})
					time.Sleep(50 * time.Millisecond)
					lost = fmt.Sprintf("round %d (%d connections ready at once): %d of %d accepted requests carried out, %d of %d bytes offered, and nothing more happened for %v; after an unrelated byte: %d requests", r, k, before, atomic.LoadInt64(&issued), bytesBefore, wantBytes, stall, atomic.LoadInt64(&done))
					break
				}
				time.Sleep(20 * time.Microsecond)
			}
		}
		if lost == "" {
			time.Sleep(2 * time.Millisecond)
			if d, i := atomic.LoadInt64(&done), atomic.LoadInt64(&issued); d != i {
				lost = fmt.Sprintf("%d callbacks for %d accepted requests", d, i)
			}
		}
		st.Eval()
		if n >= 128 {
			st.NonTrivial(vstat.Hash(cfg.String(), n, rounds, nreq))
			st.Label("more_ready_descriptors_than_the_initial_event_list")
		}
		if n >= 1024 {
			st.Label("more_ready_descriptors_than_the_largest_event_list")
		}
		if n >= 2000 {
			st.Label("enough_ready_descriptors_for_a_full_batch_of_the_largest_list")
		}
		if st.WantSample(n >= 128) {
			st.Sample(n >= 128, fmt.Sprintf("%s: %d connections readable at once, %d rounds, %d requests per round issued after %d%% of them", cfg, n, rounds, nreq, reqAt))
		}
		if lost != "" {
			t.Fatalf("VERIF-KEY:async-lost %s\ncfg: %s connections=%d rounds=%d requests=%d after %d%%", lost, cfg, n, rounds, nreq, reqAt)
		}
	})
}
