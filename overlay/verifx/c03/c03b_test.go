package c03

// C03, layer B — engine level: asynchronous requests issued from several
// goroutines against idle connections are carried out exactly once, their
// callbacks run exactly once, a Wake yields exactly one OnTraffic, asynchronous
// writes of one goroutine arrive in issue order, and nothing needs an unrelated
// event to get going (the connections carry no peer traffic at all).

import (
	"context"
	"encoding/binary"
	"fmt"
	"net"
	"os"
	"strings"
	"sync"
	"sync/atomic"
	"testing"
	"time"

	"pgregory.net/rapid"

	gnet "github.com/panjf2000/gnet/v2"
	"github.com/panjf2000/gnet/v2/verifx/fx"
	"github.com/panjf2000/gnet/v2/verifx/vstat"
)

const stall = 8 * time.Second

type areq struct {
	Kind  string // wake, asyncwrite, asyncwritev, execute
	Conn  int
	Pause int // microseconds before the request
}

type acase struct {
	Cfg     fx.Cfg
	Conns   int
	Workers [][]areq
}

func (c acase) String() string {
	var b strings.Builder
	fmt.Fprintf(&b, "%s conns=%d\n", c.Cfg, c.Conns)
	for i, w := range c.Workers {
		var ss []string
		for _, r := range w {
			ss = append(ss, fmt.Sprintf("%s@%d+%dus", r.Kind, r.Conn, r.Pause))
		}
		fmt.Fprintf(&b, " worker%d: %s\n", i, strings.Join(ss, " "))
	}
	return b.String()
}

type bconn struct {
	id       int
	gc       gnet.Conn
	traffics int32
	goid     uint64
}

func (c *bconn) OnOpen(gc gnet.Conn) ([]byte, gnet.Action) {
	c.gc, c.goid = gc, fx.Goid()
	return nil, gnet.None
}
func (c *bconn) OnTraffic(gc gnet.Conn) gnet.Action {
	atomic.AddInt32(&c.traffics, 1)
	_, _ = gc.Discard(-1)
	return gnet.None
}
func (c *bconn) OnClose(gnet.Conn, error) gnet.Action { return gnet.None }

func runAsync(ac acase) (fails, stalls []string, infra string, idleHits int) {
	var mu sync.Mutex
	failf := func(key, f string, a ...any) {
		mu.Lock()
		if len(fails) < 6 {
			fails = append(fails, fmt.Sprintf("VERIF-KEY:%s %s", key, fmt.Sprintf(f, a...)))
		}
		mu.Unlock()
	}
	e, err := fx.Start(ac.Cfg, fx.EngineHooks{})
	if err != nil {
		return nil, nil, err.Error(), 0
	}
	defer func() { _ = e.Stop() }()
	var conns []*bconn
	var peers []net.Conn
	for i := 0; i < ac.Conns; i++ {
		c := &bconn{id: i}
		p, _, err := e.Connect(c)
		if err != nil {
			return nil, nil, err.Error(), 0
		}
		conns, peers = append(conns, c), append(peers, p)
	}
	// peers only read: [worker u16][seq u32] records of the asynchronous writes
	type rec struct{ w, seq int }
	got := make([][]rec, ac.Conns)
	var rwg sync.WaitGroup
	var stopRead int32
	for i, p := range peers {
		rwg.Add(1)
		go func(i int, p net.Conn) {
			defer rwg.Done()
			buf := make([]byte, 6)
			for {
				_ = p.SetReadDeadline(time.Now().Add(20 * time.Millisecond))
				n := 0
				for n < 6 {
					m, err := p.Read(buf[n:])
					n += m
					if err != nil {
						if ne, ok := err.(net.Error); ok && ne.Timeout() && atomic.LoadInt32(&stopRead) == 0 {
							_ = p.SetReadDeadline(time.Now().Add(20 * time.Millisecond))
							continue
						}
						return
					}
				}
				mu.Lock()
				got[i] = append(got[i], rec{int(binary.BigEndian.Uint16(buf)), int(binary.BigEndian.Uint32(buf[2:]))})
				mu.Unlock()
			}
		}(i, p)
	}
	var wakesIssued, wakeCBs, writeIssued, writeCBs, execIssued, execRuns []int32
	wakesIssued, wakeCBs = make([]int32, ac.Conns), make([]int32, ac.Conns)
	writeIssued, writeCBs = make([]int32, ac.Conns), make([]int32, ac.Conns)
	emptyIssued, emptyCBs := make([]int32, ac.Conns), make([]int32, ac.Conns)
	execIssued, execRuns = make([]int32, 1), make([]int32, 1)
	var wg sync.WaitGroup
	for wi, w := range ac.Workers {
		wg.Add(1)
		go func(wi int, w []areq) {
			defer wg.Done()
			seq := make([]int, ac.Conns)
			lastCB := make([]int32, ac.Conns)
			for i := range lastCB {
				lastCB[i] = -1
			}
			for _, r := range w {
				if r.Pause > 0 {
					time.Sleep(time.Duration(r.Pause) * time.Microsecond)
				}
				c := conns[r.Conn%ac.Conns]
				ci := c.id
				onLoop := func(what string) {
					if g := fx.Goid(); g != c.goid {
						failf("async-goroutine", "%s callback of conn%d ran on goroutine %d, its loop runs on %d", what, ci, g, c.goid)
					}
				}
				switch r.Kind {
				case "wake":
					var calls int32
					if err := c.gc.Wake(func(gnet.Conn, error) error {
						onLoop("Wake")
						if atomic.AddInt32(&calls, 1) > 1 {
							failf("async-twice", "a Wake callback of conn%d ran twice", ci)
						}
						atomic.AddInt32(&wakeCBs[ci], 1)
						return nil
					}); err == nil {
						atomic.AddInt32(&wakesIssued[ci], 1)
					}
				case "asyncwrite", "asyncwritev":
					b := make([]byte, 6)
					binary.BigEndian.PutUint16(b, uint16(wi))
					binary.BigEndian.PutUint32(b[2:], uint32(seq[ci]))
					mySeq := int32(seq[ci])
					cb := func(_ gnet.Conn, err error) error {
						onLoop("AsyncWrite")
						if err != nil {
							failf("async-err", "an asynchronous write on open conn%d completed with %v", ci, err)
						}
						if prev := atomic.SwapInt32(&lastCB[ci], mySeq); prev != mySeq-1 {
							failf("async-order", "worker %d conn%d: the callback of write #%d ran after that of #%d (issue order violated or a callback ran twice)", wi, ci, mySeq, prev)
						}
						atomic.AddInt32(&writeCBs[ci], 1)
						return nil
					}
					var err error
					if r.Kind == "asyncwritev" {
						err = c.gc.AsyncWritev([][]byte{b[:2], b[2:]}, cb)
					} else {
						err = c.gc.AsyncWrite(b, cb)
					}
					if err == nil {
						seq[ci]++
						atomic.AddInt32(&writeIssued[ci], 1)
					}
				case "asyncwrite-empty":
					// nothing to send is still a request: its callback is owed exactly once
					var calls int32
					cb := func(_ gnet.Conn, err error) error {
						onLoop("AsyncWrite(empty)")
						if err != nil {
							failf("async-err", "an empty asynchronous write on open conn%d completed with %v", ci, err)
						}
						if atomic.AddInt32(&calls, 1) > 1 {
							failf("async-twice", "the callback of an empty asynchronous write on conn%d ran twice", ci)
						}
						atomic.AddInt32(&emptyCBs[ci], 1)
						return nil
					}
					var err error
					switch (wi + int(atomic.LoadInt32(&emptyIssued[ci]))) % 5 {
					case 0:
						err = c.gc.AsyncWrite(nil, cb)
					case 1:
						err = c.gc.AsyncWrite([]byte{}, cb)
					case 2:
						err = c.gc.AsyncWritev(nil, cb)
					case 3:
						err = c.gc.AsyncWritev([][]byte{}, cb)
					default:
						err = c.gc.AsyncWritev([][]byte{{}, nil}, cb)
					}
					if err == nil {
						atomic.AddInt32(&emptyIssued[ci], 1)
					}
				case "execute":
					var calls int32
					if err := c.gc.EventLoop().Execute(context.Background(), gnet.RunnableFunc(func(context.Context) error {
						onLoop("Execute")
						if atomic.AddInt32(&calls, 1) > 1 {
							failf("async-twice", "a runnable ran twice")
						}
						atomic.AddInt32(&execRuns[0], 1)
						return nil
					})); err == nil {
						atomic.AddInt32(&execIssued[0], 1)
					}
				}
			}
		}(wi, w)
	}
	wg.Wait()
	// every accepted request is carried out without any further event
	settled := func() bool {
		for i := range conns {
			if atomic.LoadInt32(&wakeCBs[i]) != atomic.LoadInt32(&wakesIssued[i]) || atomic.LoadInt32(&writeCBs[i]) != atomic.LoadInt32(&writeIssued[i]) || atomic.LoadInt32(&emptyCBs[i]) != atomic.LoadInt32(&emptyIssued[i]) {
				return false
			}
			mu.Lock()
			n := len(got[i])
			mu.Unlock()
			if int32(n) != atomic.LoadInt32(&writeIssued[i]) {
				return false
			}
		}
		return atomic.LoadInt32(&execRuns[0]) == atomic.LoadInt32(&execIssued[0])
	}
	dl := time.Now().Add(stall)
	for !settled() && time.Now().Before(dl) {
		time.Sleep(200 * time.Microsecond)
	}
	if !settled() {
		var parts []string
		for i := range conns {
			mu.Lock()
			n := len(got[i])
			mu.Unlock()
			parts = append(parts, fmt.Sprintf("conn%d: wakes %d/%d writes cb %d/%d arrived %d, empty writes cb %d/%d", i, wakeCBs[i], wakesIssued[i], writeCBs[i], writeIssued[i], n, emptyCBs[i], emptyIssued[i]))
		}
		stalls = append(stalls, fmt.Sprintf("VERIF-KEY:async-lost accepted requests were not carried out within %v on an otherwise idle engine (runnables %d/%d; %s)", stall, execRuns[0], execIssued[0], strings.Join(parts, "; ")))
	}
	time.Sleep(2 * time.Millisecond)
	for i, c := range conns {
		if t, w := atomic.LoadInt32(&c.traffics), atomic.LoadInt32(&wakesIssued[i]); t != w && len(stalls) == 0 {
			failf("async-wake-traffic", "conn%d: %d Wake requests were accepted on the open, idle connection, OnTraffic ran %d times", i, w, t)
		}
		if cb, w := atomic.LoadInt32(&wakeCBs[i]), atomic.LoadInt32(&wakesIssued[i]); cb > w {
			failf("async-twice", "conn%d: %d Wake callbacks for %d requests", i, cb, w)
		}
		// per-worker order at the peer
		mu.Lock()
		next := map[int]int{}
		for _, r := range got[i] {
			if r.seq != next[r.w] {
				failf("async-order", "conn%d: the peer received write #%d of worker %d when #%d was due", i, r.seq, r.w, next[r.w])
				break
			}
			next[r.w]++
		}
		mu.Unlock()
	}
	if r, x := atomic.LoadInt32(&execRuns[0]), atomic.LoadInt32(&execIssued[0]); r > x {
		failf("async-twice", "%d runnable executions for %d accepted Execute calls", r, x)
	}
	atomic.StoreInt32(&stopRead, 1)
	for _, p := range peers {
		p.Close()
	}
	rwg.Wait()
	for _, p := range e.Logger.Panics() {
		failf("panic-logged", "%s", p)
	}
	for _, w := range ac.Workers {
		for _, r := range w {
			if r.Pause >= 300 {
				idleHits++
			}
		}
	}
	return
}

func TestC03AsyncEngine(t *testing.T) {
	st := vstat.New("C03.engine_async")
	defer st.Flush()
	rapid.Check(t, func(t *rapid.T) {
		var ac acase
		ac.Cfg = fx.DrawCfg(t, fx.DrawOpt{})
		ac.Cfg.RcvBuf, ac.Cfg.SndBuf, ac.Cfg.Ticker = 0, 0, false
		ac.Conns = rapid.IntRange(1, 4).Draw(t, "conns")
		nw := rapid.IntRange(1, 8).Draw(t, "workers")
		for i := 0; i < nw; i++ {
			n := rapid.IntRange(1, 25).Draw(t, "requests")
			var w []areq
			for j := 0; j < n; j++ {
				w = append(w, areq{
					Kind:  rapid.SampledFrom([]string{"wake", "asyncwrite", "asyncwrite", "asyncwritev", "execute", "asyncwrite-empty"}).Draw(t, "kind"),
					Conn:  rapid.IntRange(0, ac.Conns-1).Draw(t, "conn"),
					Pause: rapid.SampledFrom([]int{0, 0, 0, 5, 50, 300, 2000}).Draw(t, "pauseUs"),
				})
			}
			ac.Workers = append(ac.Workers, w)
		}
		fails, stalls, infra, idle := runAsync(ac)
		if infra != "" {
			t.Fatalf("VERIF-INFRA %s\n%s", infra, ac)
		}
		if len(stalls) > 0 && len(fails) == 0 {
			st.Label("stall_candidate")
			f2, s2, i2, _ := runAsync(ac)
			if i2 == "" && len(f2) == 0 && len(s2) == 0 {
				st.Label("stall_not_confirmed")
			} else {
				fails = append(append(fails, stalls...), f2...)
			}
		} else {
			fails = append(fails, stalls...)
		}
		st.Eval()
		nt := idle > 0 && nw >= 2
		if nt {
			st.NonTrivial(vstat.Hash(ac.String()))
			st.Label("requests_issued_to_an_idle_loop_from_several_goroutines")
		}
		if ac.Cfg.Client {
			st.Label("client_side")
		}
		if st.WantSample(nt) {
			st.Sample(nt, ac.String())
		}
		if len(fails) > 0 {
			t.Fatalf("%s\ncase: %s", strings.Join(fails, "\n"), ac)
		}
	})
}

func TestMain(m *testing.M) {
	code := m.Run()
	fx.Cleanup()
	os.Exit(code)
}

// TestC03AsyncBursts: many small bursts of simultaneous requests, each followed by
// silence: the end of every burst is a chance for a wake-up to get lost between the
// loop's last look at its queues and its return to the poller.
func TestC03AsyncBursts(t *testing.T) {
	st := vstat.New("C03.engine_bursts")
	defer st.Flush()
	rapid.Check(t, func(t *rapid.T) {
		cfg := fx.DrawCfg(t, fx.DrawOpt{ServerOnly: true, MaxLoops: 2})
		cfg.RcvBuf, cfg.SndBuf, cfg.Ticker = 0, 0, false
		nw := rapid.IntRange(2, 4).Draw(t, "goroutines")
		per := rapid.IntRange(1, 3).Draw(t, "requestsPerGoroutine")
		bursts := 300
		if vstat.Thorough() {
			bursts = 3000
		}
		e, err := fx.Start(cfg, fx.EngineHooks{})
		if err != nil {
			t.Fatalf("VERIF-INFRA %v", err)
		}
		defer func() { _ = e.Stop() }()
		c := &bconn{}
		p, _, err := e.Connect(c)
		if err != nil {
			t.Fatalf("VERIF-INFRA %v", err)
		}
		defer p.Close()
		var done int64
		var issued int64
		start := make([]chan struct{}, nw)
		var wg sync.WaitGroup
		quit := make(chan struct{})
		for w := 0; w < nw; w++ {
			start[w] = make(chan struct{})
			wg.Add(1)
			go func(w int) {
				defer wg.Done()
				for {
					select {
					case <-quit:
						return
					case <-start[w]:
					}
					for i := 0; i < per; i++ {
						var err error
						if (w+i)%2 == 0 {
							err = c.gc.Wake(func(gnet.Conn, error) error { atomic.AddInt64(&done, 1); return nil })
						} else {
							err = c.gc.EventLoop().Execute(context.Background(), gnet.RunnableFunc(func(context.Context) error { atomic.AddInt64(&done, 1); return nil }))
						}
						if err == nil {
							atomic.AddInt64(&issued, 1)
						}
					}
				}
			}(w)
		}
		lost := ""
		for b := 0; b < bursts && lost == ""; b++ {
			for w := 0; w < nw; w++ {
				start[w] <- struct{}{}
			}
			want := int64((b + 1) * nw * per)
			dl := time.Now().Add(stall)
			for atomic.LoadInt64(&done) < want {
				if time.Now().After(dl) {
					// is it stuck until an unrelated event arrives?
					before := atomic.LoadInt64(&done)
					_, _ = p.Write([]byte{1})
					time.Sleep(50 * time.Millisecond)
					lost = fmt.Sprintf("burst %d: %d of %d accepted requests were carried out and nothing more happened for %v on an idle loop; after an unrelated byte from the peer the count went from %d to %d", b, before, atomic.LoadInt64(&issued), stall, before, atomic.LoadInt64(&done))
					break
				}
				if atomic.LoadInt64(&issued) < want {
					time.Sleep(5 * time.Microsecond)
					continue
				}
				time.Sleep(5 * time.Microsecond)
			}
		}
		close(quit)
		wg.Wait()
		st.Eval()
		st.NonTrivial(vstat.Hash(cfg.String(), nw, per))
		st.LabelN("bursts", int64(bursts))
		if st.WantSample(true) {
			st.Sample(true, fmt.Sprintf("%s: %d bursts of %d goroutines x %d requests (Wake/Execute), each burst settled before the next", cfg, bursts, nw, per))
		}
		if lost != "" {
			t.Fatalf("VERIF-KEY:async-lost %s\ncfg: %s goroutines=%d per=%d", lost, cfg, nw, per)
		}
	})
}
