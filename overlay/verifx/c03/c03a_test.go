// C03, layer A — no lost wake-up of a loop: the real poller (Trigger / Polling,
// its atomics and eventfd/epoll system calls turned into scheduling points) runs
// under the harness-owned scheduler; the schedule is drawn by rapid.
package c03

import (
	"errors"
	"fmt"
	"hash/fnv"
	"sort"
	"strings"
	"testing"

	"pgregory.net/rapid"

	"github.com/panjf2000/gnet/v2/internal/vsched"
	"github.com/panjf2000/gnet/v2/internal/vsched/vunix"
	errorx "github.com/panjf2000/gnet/v2/pkg/errors"
	"github.com/panjf2000/gnet/v2/pkg/netpoll"
	"github.com/panjf2000/gnet/v2/pkg/queue"
	"github.com/panjf2000/gnet/v2/verifx/vstat"
)

var debugTrace bool

type trig struct {
	high bool
}

type wakeCase struct {
	producers [][]trig
	preUrgent int // tasks triggered before the threads start
	preLow    int
	sched     string
	prio      []int
	changeAt  map[int]bool
	// sleeper >= 0: that producer, once it has run sleepAfter steps, is not scheduled
	// again until every other thread is blocked or finished (or sleepFor steps passed):
	// a goroutine pre-empted for a long time in the middle of Trigger.
	sleeper, sleepAfter, sleepFor int
	// efdEagainAt > 0: the k-th write to the eventfd (counting the preload's) reports EAGAIN, as if
	// the counter stood at its ceiling; the code reads the eventfd and writes again
	efdEagainAt int
}

func (c wakeCase) String() string {
	var ps []string
	for _, p := range c.producers {
		var b strings.Builder
		for _, t := range p {
			if t.high {
				b.WriteByte('H')
			} else {
				b.WriteByte('L')
			}
		}
		ps = append(ps, b.String())
	}
	var pts []int
	for k := range c.changeAt {
		pts = append(pts, k)
	}
	sort.Ints(pts)
	sl := ""
	if c.efdEagainAt > 0 {
		sl = fmt.Sprintf(", eventfd write #%d reports EAGAIN", c.efdEagainAt)
	}
	if c.sleeper >= 0 {
		sl += fmt.Sprintf(", producer %d sleeps after %d steps (at most %d steps)", c.sleeper, c.sleepAfter, c.sleepFor)
	}
	return fmt.Sprintf("producers %s preload %d urgent + %d low, schedule %s prio %v change %v%s", strings.Join(ps, "|"), c.preUrgent, c.preLow, c.sched, c.prio, pts, sl)
}

type ran struct {
	id     int
	thread int
}

// runWake executes one case with the schedule the case describes; pick
// supplies the random-walk choices.
func runWake(c wakeCase, pick func(n int) int, st *vstat.Stats) string {
	low := -1
	prio := append([]int(nil), c.prio...)
	chosen := map[int]int{}
	myLast, slept := -1, 0
	return runWakeWith(c, func(cands []int, last int, step int) int {
		i := 0
		if c.sched == "pct" {
			if c.changeAt[step] && last >= 0 {
				prio[last] = low
				low--
			}
			for j, cd := range cands {
				if prio[cd] > prio[cands[i]] {
					i = j
				}
			}
			return i
		}
		if c.sleeper < 0 {
			return pick(len(cands))
		}
		// thread ids: 0 is the loop, producer k is k+1
		sid := c.sleeper + 1
		if last >= 0 && last != myLast {
			chosen[last]++ // a sole candidate was run without asking
		}
		awake := make([]int, 0, len(cands))
		for j, cd := range cands {
			if cd == sid && chosen[sid] == c.sleepAfter && slept < c.sleepFor {
				slept++
				continue
			}
			awake = append(awake, j)
		}
		i = awake[0]
		if len(awake) > 1 {
			i = awake[pick(len(awake))]
		}
		chosen[cands[i]]++
		myLast = cands[i]
		return i
	}, st)
}

// runWakeWith executes one case under an arbitrary chooser.
func runWakeWith(c wakeCase, choose3 func(cands []int, last int, step int) int, st *vstat.Stats) string {
	p, err := netpoll.OpenPoller()
	if err != nil {
		return "VERIF-INFRA OpenPoller: " + err.Error()
	}
	defer p.Close()
	vunix.FailWriteAt(c.efdEagainAt)
	defer vunix.FailWriteAt(0)
	s := vsched.New()
	defer s.Close()
	s.FairAfter = 64 // the loop legitimately spins while a producer sits between linking its node and publishing the length
	if c.sleeper >= 0 {
		s.FairAfter = 0 // the sleeper's bound (sleepFor) limits the spinning instead
	}

	var log []ran
	type issued struct {
		id, producer, seq int
		high              bool
	}
	var accepted []issued
	nextID := 0
	mkTask := func(id int) queue.Func {
		return func(any) error {
			log = append(log, ran{id, vsched.Self()})
			return nil
		}
	}
	// preload from the (unscheduled) test goroutine
	for i := 0; i < c.preUrgent; i++ {
		id := nextID
		nextID++
		if err := p.Trigger(queue.HighPriority, mkTask(id), nil); err == nil {
			accepted = append(accepted, issued{id, -1, i, true})
		}
	}
	for i := 0; i < c.preLow; i++ {
		id := nextID
		nextID++
		if err := p.Trigger(queue.LowPriority, mkTask(id), nil); err == nil {
			accepted = append(accepted, issued{id, -1, c.preUrgent + i, false})
		}
	}
	var pollErr error
	loopID := s.Go("loop", func() { pollErr = runPolling(p) })
	prodIDs := make([]int, len(c.producers))
	for pi, trigs := range c.producers {
		pi, trigs := pi, trigs
		prodIDs[pi] = s.Go(fmt.Sprintf("p%d", pi), func() {
			for seq, tg := range trigs {
				id := nextID
				nextID++
				prio := queue.LowPriority
				if tg.high {
					prio = queue.HighPriority
				}
				if err := p.Trigger(prio, mkTask(id), nil); err == nil {
					accepted = append(accepted, issued{id, pi, seq, tg.high})
				}
			}
		})
	}
	h := fnv.New64a()
	step := 0
	choose := func(cands []int, last int) int {
		step++
		i := choose3(cands, last, step)
		if i < 0 || i >= len(cands) {
			i = 0
		}
		h.Write([]byte{byte(cands[i])})
		return i
	}
	budget := 400000
	if debugTrace {
		s.KeepTrace = true
		budget = 300
	}
	quiescent, rerr := s.Run(choose, budget)
	if rerr != nil {
		if debugTrace {
			for i, tr := range s.Trace {
				fmt.Println(i, tr)
			}
		}
		_ = s.Finish(1000)
		return "VERIF-INFRA " + rerr.Error() + " in " + c.String()
	}
	if s.Misuse != "" {
		return "VERIF-INFRA vsched: " + s.Misuse
	}
	if s.Panic != "" {
		return "VERIF-KEY:wake-panic " + s.Panic
	}
	lostCAS := 0
	for _, id := range prodIDs {
		lostCAS += s.Notes(id)["cas-int32-lost"]
	}
	st.Eval()
	nt := lostCAS > 0
	if nt {
		st.NonTrivial(h.Sum64())
		st.Label("producer_wakeup_cas_lost")
	} else {
		st.Label("every_producer_cas_won")
	}
	if c.preLow > 256 {
		st.Label("more_than_256_low_priority_pending")
	}
	if c.preUrgent >= 1024 {
		st.Label("urgent_threshold_crossed")
	}
	if c.efdEagainAt > 0 && vunix.WriteFaultDelivered() {
		st.Label("eventfd_write_reported_eagain")
	}
	if c.sleeper >= 0 {
		st.Label("producer_preempted_until_loop_parked")
		if c.preUrgent >= 1024 {
			st.Label("producer_preempted_until_loop_parked_with_urgent_threshold_crossed")
		}
	}
	if st.WantSample(nt) {
		st.Sample(nt, fmt.Sprintf("%s: %d steps, %d tasks ran, producers lost the wake-up CAS %d times", c, s.Steps, len(log), lostCAS))
	}
	describe := func() string {
		return fmt.Sprintf("case: %s\nsteps %d, accepted %d, executed %d", c, s.Steps, len(accepted), len(log))
	}
	if !quiescent {
		return fmt.Sprintf("VERIF-KEY:wake-loop-exit the polling loop returned (%v) although nothing asked it to\n%s", pollErr, describe())
	}
	// quiescent: loop parked in epoll_wait with nothing ready, producers finished
	count := map[int]int{}
	for _, r := range log {
		count[r.id]++
		if r.thread != loopID {
			return fmt.Sprintf("VERIF-KEY:wake-wrong-thread task %d ran on thread %d, not on the loop\n%s", r.id, r.thread, describe())
		}
	}
	for _, a := range accepted {
		switch n := count[a.id]; {
		case n == 0:
			return fmt.Sprintf("VERIF-KEY:wake-lost task %d (producer %d, #%d, high=%v) was accepted but never executed: the loop is parked with the request pending\n%s", a.id, a.producer, a.seq, a.high, describe())
		case n > 1:
			return fmt.Sprintf("VERIF-KEY:wake-twice task %d ran %d times\n%s", a.id, n, describe())
		}
	}
	if len(log) != len(accepted) {
		return fmt.Sprintf("VERIF-KEY:wake-phantom %d executions for %d accepted tasks\n%s", len(log), len(accepted), describe())
	}
	// high-priority tasks of one producer run in issue order
	pos := map[int]int{}
	for i, r := range log {
		pos[r.id] = i
	}
	lastPos := map[int]int{}
	for _, a := range accepted { // accepted is in issue order per producer
		if !a.high {
			continue
		}
		if lp, ok := lastPos[a.producer]; ok && pos[a.id] < lp {
			return fmt.Sprintf("VERIF-KEY:wake-order high-priority task %d of producer %d ran before an earlier one\n%s", a.id, a.producer, describe())
		}
		lastPos[a.producer] = pos[a.id]
	}
	// orderly end: ask the loop to leave
	if err := p.Trigger(queue.HighPriority, func(any) error { return errorx.ErrEngineShutdown }, nil); err != nil {
		return "VERIF-INFRA shutdown trigger: " + err.Error()
	}
	s.Wake()
	q2, rerr := s.Run(func(cands []int, last int) int { return 0 }, 100000)
	if rerr != nil || q2 {
		_ = s.Finish(1000)
		return fmt.Sprintf("VERIF-KEY:wake-lost the shutdown request issued to a parked loop was not carried out (quiescent again=%v, err=%v)\n%s", q2, rerr, describe())
	}
	if !errors.Is(pollErr, errorx.ErrEngineShutdown) {
		return fmt.Sprintf("VERIF-KEY:wake-loop-exit Polling returned %v, want the shutdown error\n%s", pollErr, describe())
	}
	return ""
}

func drawWakeCase(t *rapid.T) wakeCase {
	var c wakeCase
	np := rapid.IntRange(1, 4).Draw(t, "producers")
	for i := 0; i < np; i++ {
		k := rapid.IntRange(1, 6).Draw(t, "triggers")
		tr := make([]trig, k)
		for j := range tr {
			tr[j].high = rapid.Bool().Draw(t, "high")
		}
		c.producers = append(c.producers, tr)
	}
	c.sleeper = -1
	switch rapid.IntRange(0, 39).Draw(t, "preload") {
	case 0, 6:
		c.preUrgent, c.preLow = 1024, rapid.IntRange(250, 300).Draw(t, "preLow")
	case 1, 7:
		c.preUrgent, c.preLow = rapid.IntRange(1020, 1030).Draw(t, "preUrgent"), rapid.IntRange(0, 3).Draw(t, "preLow")
	case 2, 3:
		c.preUrgent = rapid.IntRange(1, 40).Draw(t, "preUrgent")
	case 4, 5:
		c.preLow = rapid.IntRange(1, 40).Draw(t, "preLow")
	}
	if rapid.IntRange(0, 7).Draw(t, "efdFault") == 0 {
		c.efdEagainAt = rapid.IntRange(1, 6).Draw(t, "efdEagainAt")
	}
	if rapid.Bool().Draw(t, "pct") {
		c.sched = "pct"
		c.prio = rapid.Permutation([]int{10, 20, 30, 40, 50}).Draw(t, "prio")
		c.changeAt = map[int]bool{}
		d := rapid.IntRange(1, 3).Draw(t, "d")
		for i := 0; i < d; i++ {
			c.changeAt[rapid.IntRange(1, 150).Draw(t, "changeAt")] = true
		}
	} else {
		c.sched = "walk"
		if rapid.IntRange(0, 3).Draw(t, "sleeper") == 0 || c.preUrgent >= 1000 {
			c.sleeper = rapid.IntRange(0, np-1).Draw(t, "sleeperProducer")
			c.sleepAfter = rapid.IntRange(1, 14).Draw(t, "sleepAfter")
			c.sleepFor = 60000
		}
	}
	return c
}

func TestC03WakeScheduled(t *testing.T) {
	st := vstat.New("C03.poller_scheduled")
	defer st.Flush()
	rapid.Check(t, func(t *rapid.T) {
		c := drawWakeCase(t)
		pick := func(n int) int { return rapid.IntRange(0, n-1).Draw(t, "pick") }
		if msg := runWake(c, pick, st); msg != "" {
			t.Fatal(msg)
		}
	})
}

// Bounded-exhaustive: all schedules with at most `bound` pre-emptions for the
// smallest configurations.
func TestC03WakeExhaustive(t *testing.T) {
	st := vstat.New("C03.poller_exhaustive")
	defer st.Flush()
	// pre-emption bound per number of threads (loop + producers): the space grows like (90*(threads-1))^bound / bound!
	boundFor := map[int]int{2: 3, 3: 3}
	if vstat.Thorough() {
		boundFor = map[int]int{2: 5, 3: 4}
	}
	configs := []wakeCase{
		{producers: [][]trig{{{true}, {false}}}},
		{producers: [][]trig{{{false}}, {{true}}}},
		{producers: [][]trig{{{true}, {true}, {false}}}},
		{producers: [][]trig{{{false}, {true}}}},
	}
	if vstat.Thorough() {
		configs = append(configs,
			wakeCase{producers: [][]trig{{{true}, {false}}, {{false}}}},
			wakeCase{producers: [][]trig{{{false}}, {{false}}}},
			wakeCase{producers: [][]trig{{{true}}, {{true}, {false}}}},
			wakeCase{producers: [][]trig{{{false}, {false}, {true}, {false}}}})
	}
	k, n := vstat.Shard()
	total := 0
	idx := 0
	for _, cfg := range configs {
		nthreads := len(cfg.producers) + 1
		bound := boundFor[nthreads]
		var rec func(pre [][2]int, from int)
		runOne := func(pre [][2]int) (int, string) {
			at := map[int]int{}
			for _, p := range pre {
				at[p[0]] = p[1]
			}
			c := cfg
			c.sleeper = -1
			c.sched = fmt.Sprintf("pre-emptions %v", pre)
			step := 0
			msg := runWakeEnum(c, at, &step, st)
			return step, msg
		}
		rec = func(pre [][2]int, from int) {
			idx++
			mine := idx%n == k
			var steps int
			var msg string
			if mine || len(pre) < bound {
				steps, msg = runOne(pre)
				if mine {
					total++
				}
			}
			if msg != "" {
				t.Fatal(msg)
			}
			if len(pre) == bound {
				return
			}
			// pre-emptions only within the first 90 steps keep the space tractable
			lim := steps
			if lim > 90 {
				lim = 90
			}
			for s := from; s <= lim; s++ {
				for alt := 0; alt < nthreads-1; alt++ {
					rec(append(append([][2]int(nil), pre...), [2]int{s, alt}), s+1)
				}
			}
		}
		rec(nil, 1)
	}
	st.Set("preemption_bound_by_threads", fmt.Sprint(boundFor))
	st.Set("schedules", total)
}

// runWakeEnum: "keep running the last thread, pre-empt at the listed steps".
func runWakeEnum(c wakeCase, at map[int]int, stepOut *int, st *vstat.Stats) string {
	return runWakeWith(c, func(cands []int, lastT int, step int) int {
		*stepOut = step
		def := 0
		for i, cd := range cands {
			if cd == lastT {
				def = i
			}
		}
		if alt, ok := at[step]; ok {
			j := 0
			for i := range cands {
				if i == def {
					continue
				}
				if j == alt {
					return i
				}
				j++
			}
		}
		return def
	}, st)
}
