package c03

// Layer B, registrations: Register / Enroll on an event-loop or the engine and a client's
// Dial / Enroll are asynchronous requests like the others - a worker goroutine dials or
// duplicates the descriptor and then hands the connection to the owning loop through the
// same Trigger path. Every accepted call must deliver exactly one result, and for a usable
// connection exactly one OnOpen, run on the goroutine of the loop that owns it, even when
// the loop is idle or is just going back to sleep after the previous burst.

import (
	"context"
	"fmt"
	"net"
	"runtime"
	"strings"
	"sync"
	"sync/atomic"
	"testing"
	"time"

	"pgregory.net/rapid"

	gnet "github.com/panjf2000/gnet/v2"
	"github.com/panjf2000/gnet/v2/verifx/fx"
	"github.com/panjf2000/gnet/v2/verifx/vstat"
)

type rconn struct {
	id     int
	opens  int32
	closes int32
	goid   uint64
	loop   gnet.EventLoop
	gc     gnet.Conn
}

func (c *rconn) OnOpen(gc gnet.Conn) ([]byte, gnet.Action) {
	if atomic.AddInt32(&c.opens, 1) == 1 {
		c.gc, c.goid, c.loop = gc, fx.Goid(), gc.EventLoop()
	}
	return nil, gnet.None
}
func (c *rconn) OnTraffic(gc gnet.Conn) gnet.Action { _, _ = gc.Discard(-1); return gnet.None }
func (c *rconn) OnClose(gnet.Conn, error) gnet.Action {
	atomic.AddInt32(&c.closes, 1)
	return gnet.None
}

type regCase struct {
	Cfg    fx.Cfg
	NW     int
	Per    int
	Bursts int
	Kinds  []string // request kind per goroutine
	Noise  int      // Execute requests a further goroutine fires at every anchor's loop during each burst
}

func (c regCase) String() string {
	return fmt.Sprintf("%s goroutines=%d per=%d bursts=%d kinds=%v noise=%d", c.Cfg, c.NW, c.Per, c.Bursts, c.Kinds, c.Noise)
}

func runRegistrations(rc regCase) (fails []string, infra string, total int) {
	var mu sync.Mutex
	failf := func(key, f string, a ...any) {
		mu.Lock()
		if len(fails) < 6 {
			fails = append(fails, fmt.Sprintf("VERIF-KEY:%s %s", key, fmt.Sprintf(f, a...)))
		}
		mu.Unlock()
	}
	e, err := fx.Start(rc.Cfg, fx.EngineHooks{})
	if err != nil {
		return nil, err.Error(), 0
	}
	defer func() { _ = e.Stop() }()
	// the harness's own target: accepts and holds
	tl, err := net.Listen("tcp4", fx.Host("tcp4")+":0")
	if err != nil {
		return nil, "target listener: " + err.Error(), 0
	}
	var tmu sync.Mutex
	var held []net.Conn
	acceptDone := make(chan struct{})
	go func() {
		defer close(acceptDone)
		for {
			c, err := tl.Accept()
			if err != nil {
				return
			}
			tmu.Lock()
			held = append(held, c)
			tmu.Unlock()
		}
	}()
	defer func() {
		tl.Close()
		<-acceptDone
		tmu.Lock()
		for _, c := range held {
			c.Close()
		}
		tmu.Unlock()
	}()
	// anchors: connections whose event-loops are the handles for EventLoop.Register/Enroll
	var anchors []*bconn
	var peers []net.Conn
	for i := 0; i < rc.Cfg.Loops+1; i++ {
		a := &bconn{id: i}
		p, _, err := e.Connect(a)
		if err != nil {
			return nil, "anchor: " + err.Error(), 0
		}
		anchors = append(anchors, a)
		peers = append(peers, p)
	}
	defer func() {
		for _, p := range peers {
			p.Close()
		}
	}()
	loopGoid := map[gnet.EventLoop]uint64{}
	for _, a := range anchors {
		loopGoid[a.gc.EventLoop()] = a.goid
	}
	var all []*rconn
	var results int64
	nextID := int64(0)
	one := func(w, i int) {
		st := &rconn{id: int(atomic.AddInt64(&nextID, 1))}
		mu.Lock()
		all = append(all, st)
		mu.Unlock()
		a := anchors[(w+i)%len(anchors)]
		l := a.gc.EventLoop()
		ctx := gnet.NewContext(context.Background(), fx.ConnHooks(st))
		var ch <-chan gnet.RegisteredResult
		var gc gnet.Conn
		var err error
		wantLoop := l
		switch rc.Kinds[w] {
		case "el-register":
			ch, err = l.Register(ctx, tl.Addr())
		case "el-enroll":
			nc, derr := net.Dial("tcp4", tl.Addr().String())
			if derr != nil {
				failf("VERIF-INFRA", "dial target: %v", derr)
				return
			}
			if ch, err = l.Enroll(ctx, nc); err != nil {
				nc.Close()
			}
		case "eng-register":
			wantLoop = nil
			if i%2 == 0 {
				ch, err = e.Eng.Register(gnet.NewNetAddrContext(ctx, tl.Addr()))
			} else {
				nc, derr := net.Dial("tcp4", tl.Addr().String())
				if derr != nil {
					failf("VERIF-INFRA", "dial target: %v", derr)
					return
				}
				if ch, err = e.Eng.Register(gnet.NewNetConnContext(ctx, nc)); err != nil {
					nc.Close()
				}
			}
		case "cli-dial":
			wantLoop = nil
			gc, err = e.Client().DialContext("tcp4", tl.Addr().String(), fx.ConnHooks(st))
		case "cli-enroll":
			wantLoop = nil
			nc, derr := net.Dial("tcp4", tl.Addr().String())
			if derr != nil {
				failf("VERIF-INFRA", "dial target: %v", derr)
				return
			}
			if gc, err = e.Client().EnrollContext(nc, fx.ConnHooks(st)); err != nil {
				nc.Close()
			}
		}
		if err != nil {
			failf("reg-refused", "%s on a running, idle engine was refused: %v", rc.Kinds[w], err)
			return
		}
		if ch != nil {
			select {
			case r := <-ch:
				gc, err = r.Conn, r.Err
			case <-time.After(stall):
				failf("async-lost", "%s (request %d) was accepted but delivered no result within %v on an idle engine (OnOpen count for it: %d)", rc.Kinds[w], st.id, stall, atomic.LoadInt32(&st.opens))
				return
			}
			// exactly one result
			select {
			case r2, ok := <-ch:
				if ok {
					failf("async-twice", "%s (request %d) delivered a second result: %+v", rc.Kinds[w], st.id, r2)
				}
			default:
			}
		}
		if err != nil || gc == nil {
			failf("reg-failed", "%s to a listening target failed: conn=%v err=%v", rc.Kinds[w], gc, err)
			return
		}
		atomic.AddInt64(&results, 1)
		if n := atomic.LoadInt32(&st.opens); n != 1 {
			failf("reg-open", "%s (request %d): the result was delivered with %d OnOpen invocations for the connection", rc.Kinds[w], st.id, n)
			return
		}
		if st.gc != gc {
			failf("reg-identity", "%s (request %d): the connection handed to the caller is not the one OnOpen saw", rc.Kinds[w], st.id)
		}
		if wantLoop != nil && st.loop != wantLoop {
			failf("reg-loop", "%s (request %d) on one event-loop was opened on another", rc.Kinds[w], st.id)
		}
		mu.Lock()
		if g, ok := loopGoid[st.loop]; ok && g != st.goid {
			failf("reg-goroutine", "%s (request %d): OnOpen ran on goroutine %d, the loop's callbacks run on goroutine %d", rc.Kinds[w], st.id, st.goid, g)
		} else if !ok {
			loopGoid[st.loop] = st.goid
		}
		mu.Unlock()
	}
	start := make([]chan struct{}, rc.NW)
	doneCh := make(chan struct{}, rc.NW)
	quit := make(chan struct{})
	var wg sync.WaitGroup
	for w := 0; w < rc.NW; w++ {
		start[w] = make(chan struct{})
		wg.Add(1)
		go func(w int) {
			defer wg.Done()
			for {
				select {
				case <-quit:
					return
				case <-start[w]:
				}
				for i := 0; i < rc.Per; i++ {
					one(w, i)
				}
				doneCh <- struct{}{}
			}
		}(w)
	}
	var noiseIssued, noiseDone int64
	for b := 0; b < rc.Bursts; b++ {
		for w := 0; w < rc.NW; w++ {
			start[w] <- struct{}{}
		}
		// other requests keep the loops draining while the registrations arrive, so that a
		// registration can be queued just as a loop finishes its batch
		burstOver := make(chan struct{})
		noiseStopped := make(chan struct{})
		go func() {
			defer close(noiseStopped)
			if rc.Noise == 0 {
				return
			}
			for i := 0; ; i++ {
				select {
				case <-burstOver:
					return
				default:
				}
				for _, a := range anchors {
					var err error
					if i%2 == 0 {
						err = a.gc.EventLoop().Execute(context.Background(), gnet.RunnableFunc(func(context.Context) error { atomic.AddInt64(&noiseDone, 1); return nil }))
					} else {
						err = a.gc.Wake(func(gnet.Conn, error) error { atomic.AddInt64(&noiseDone, 1); return nil })
					}
					if err == nil {
						noiseIssued++
					}
				}
				if i%rc.Noise == rc.Noise-1 {
					// let the loops run dry now and then: the interesting moment is the end of a batch
					for atomic.LoadInt64(&noiseDone) < noiseIssued {
						select {
						case <-burstOver:
							return
						default:
							runtime.Gosched()
						}
					}
				}
			}
		}()
		for w := 0; w < rc.NW; w++ {
			<-doneCh
		}
		close(burstOver)
		<-noiseStopped
		dl := time.Now().Add(stall)
		for atomic.LoadInt64(&noiseDone) < noiseIssued {
			if time.Now().After(dl) {
				failf("async-lost", "burst %d: %d of %d accepted Execute/Wake requests were carried out and nothing more happened for %v", b, atomic.LoadInt64(&noiseDone), noiseIssued, stall)
				break
			}
			time.Sleep(5 * time.Microsecond)
		}
		mu.Lock()
		bad := len(fails) > 0
		mu.Unlock()
		if bad {
			break
		}
	}
	close(quit)
	wg.Wait()
	total = int(atomic.LoadInt64(&results))
	// settle: no connection was opened twice, none closed by itself
	time.Sleep(2 * time.Millisecond)
	mu.Lock()
	conns := append([]*rconn(nil), all...)
	mu.Unlock()
	for _, st := range conns {
		if n := atomic.LoadInt32(&st.opens); n > 1 {
			failf("async-twice", "request %d: %d OnOpen invocations for one registration", st.id, n)
		}
		if n := atomic.LoadInt32(&st.closes); n != 0 && len(fails) == 0 {
			failf("reg-closed", "request %d: the registered connection saw OnClose although nobody closed it", st.id)
		}
	}
	if n := e.Eng.CountConnections(); len(fails) == 0 && !rc.Cfg.Client && n != total+len(anchors) {
		failf("reg-count", "CountConnections = %d with %d anchors and %d registered connections open", n, len(anchors), total)
	}
	for _, p := range e.Logger.Panics() {
		failf("panic-logged", "%s", p)
	}
	return fails, "", total
}

func TestC03Registrations(t *testing.T) {
	st := vstat.New("C03.engine_registrations")
	defer st.Flush()
	rapid.Check(t, func(t *rapid.T) {
		var rc regCase
		rc.Cfg = fx.Cfg{Net: "tcp4", ReadCap: 4096, WriteCap: 4096}
		rc.Cfg.Client = rapid.Bool().Draw(t, "client")
		if rc.Cfg.Client {
			rc.Cfg.Enroll = rapid.Bool().Draw(t, "anchorsEnrolled")
		} else {
			rc.Cfg.ReusePort = rapid.Bool().Draw(t, "reuseport")
		}
		rc.Cfg.ET = rapid.Bool().Draw(t, "et")
		rc.Cfg.Loops = rapid.SampledFrom([]int{1, 2, 3, 4}).Draw(t, "loops")
		rc.Cfg.LB = gnet.LoadBalancing(rapid.IntRange(1, 2).Draw(t, "lb")) // Engine.Register is not for Round-Robin engines
		rc.NW = rapid.IntRange(1, 4).Draw(t, "goroutines")
		rc.Per = rapid.IntRange(1, 3).Draw(t, "perBurst")
		rc.Bursts = rapid.IntRange(5, 25).Draw(t, "bursts")
		if vstat.Thorough() {
			rc.Bursts *= 4
		}
		rc.Noise = rapid.SampledFrom([]int{0, 1, 2, 6, 20}).Draw(t, "noise")
		kinds := []string{"el-register", "el-enroll", "eng-register"}
		if rc.Cfg.Client {
			kinds = []string{"el-register", "el-enroll", "cli-dial", "cli-enroll"}
		}
		for w := 0; w < rc.NW; w++ {
			rc.Kinds = append(rc.Kinds, rapid.SampledFrom(kinds).Draw(t, "kind"))
		}
		fails, infra, total := runRegistrations(rc)
		if infra != "" {
			t.Fatalf("VERIF-INFRA %s\n%s", infra, rc)
		}
		for _, f := range fails {
			if strings.Contains(f, "VERIF-INFRA") {
				t.Fatalf("VERIF-INFRA %s\n%s", f, rc)
			}
		}
		st.Eval()
		nt := rc.NW >= 2
		if nt {
			st.NonTrivial(vstat.Hash(rc.String()))
			st.Label("registrations_from_several_goroutines_to_idle_loops")
		}
		st.LabelN("registrations", int64(total))
		if rc.Cfg.Client {
			st.Label("client_side")
		}
		if st.WantSample(nt) {
			st.Sample(nt, rc.String())
		}
		if len(fails) > 0 {
			t.Fatalf("%s\ncase: %s", strings.Join(fails, "\n"), rc)
		}
	})
}

// TestC03CallbacksAcrossClose: requests that were accepted while the connection was open
// and are carried out after an earlier request has closed it are still carried out exactly
// once - for Wake and CloseWithCallback that means: the callback is invoked once (the
// request itself is a no-op on a closed connection).
func TestC03CallbacksAcrossClose(t *testing.T) {
	st := vstat.New("C03.engine_callbacks_across_close")
	defer st.Flush()
	rapid.Check(t, func(t *rapid.T) {
		cfg := fx.DrawCfg(t, fx.DrawOpt{MaxLoops: 2})
		cfg.RcvBuf, cfg.SndBuf, cfg.Ticker = 0, 0, false
		nc := rapid.IntRange(1, 3).Draw(t, "conns")
		var scripts [][]string
		for i := 0; i < nc; i++ {
			scripts = append(scripts, rapid.SliceOfN(rapid.SampledFrom([]string{"closecb", "closecb", "wake", "wake", "close", "asyncwrite"}), 2, 6).Draw(t, "script"))
		}
		e, err := fx.Start(cfg, fx.EngineHooks{})
		if err != nil {
			t.Fatalf("VERIF-INFRA %v", err)
		}
		defer func() { _ = e.Stop() }()
		type res struct {
			issued, done int32
			kind         string
		}
		var all []*res
		var wg sync.WaitGroup
		var mu sync.Mutex
		for i := 0; i < nc; i++ {
			c := &bconn{id: i}
			p, gc, err := e.Connect(c)
			if err != nil {
				t.Fatalf("VERIF-INFRA %v", err)
			}
			defer p.Close()
			if gc == nil {
				gc = c.gc
			}
			wg.Add(1)
			go func(gc gnet.Conn, script []string) {
				defer wg.Done()
				for _, k := range script {
					r := &res{kind: k}
					cb := func(gnet.Conn, error) error { atomic.AddInt32(&r.done, 1); return nil }
					var err error
					switch k {
					case "closecb":
						err = gc.CloseWithCallback(cb)
					case "wake":
						err = gc.Wake(cb)
					case "asyncwrite":
						err = gc.AsyncWrite([]byte("x"), cb)
					default:
						err = gc.Close()
						atomic.StoreInt32(&r.done, 1)
					}
					if err == nil {
						atomic.StoreInt32(&r.issued, 1)
						mu.Lock()
						all = append(all, r)
						mu.Unlock()
					}
				}
			}(gc, scripts[i])
		}
		wg.Wait()
		dl := time.Now().Add(stall)
		settled := func() bool {
			mu.Lock()
			defer mu.Unlock()
			for _, r := range all {
				if atomic.LoadInt32(&r.done) < 1 {
					return false
				}
			}
			return true
		}
		for !settled() && time.Now().Before(dl) {
			time.Sleep(200 * time.Microsecond)
		}
		time.Sleep(2 * time.Millisecond)
		st.Eval()
		st.NonTrivial(vstat.Hash(cfg.String(), fmt.Sprint(scripts)))
		if st.WantSample(true) {
			st.Sample(true, fmt.Sprintf("%s scripts=%v", cfg, scripts))
		}
		mu.Lock()
		defer mu.Unlock()
		for _, r := range all {
			if n := atomic.LoadInt32(&r.done); n != 1 {
				t.Fatalf("VERIF-KEY:async-callback-count a %s request was accepted without error and its callback ran %d times (within %v on an idle engine)\ncfg: %s scripts=%v", r.kind, n, stall, cfg, scripts)
			}
		}
	})
}
