//go:build linux && poll_opt

package c03

import "github.com/panjf2000/gnet/v2/pkg/netpoll"

func runPolling(p *netpoll.Poller) error { return p.Polling() }
