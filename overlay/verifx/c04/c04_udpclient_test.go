package c04

// Connected client UDP sockets (Client.Dial("udp", ...)) have the same life cycle as
// stream connections: OnOpen once, OnClose once, nothing afterwards, and requests that
// reach a closed one act on nobody - in particular not on a newer socket that got the
// same descriptor number.

import (
	"bytes"
	"errors"
	"fmt"
	"net"
	"os"
	"strconv"
	"strings"
	"sync"
	"sync/atomic"
	"testing"
	"time"

	"pgregory.net/rapid"

	gnet "github.com/panjf2000/gnet/v2"
	"github.com/panjf2000/gnet/v2/verifx/fx"
	"github.com/panjf2000/gnet/v2/verifx/lifex"
	"github.com/panjf2000/gnet/v2/verifx/vstat"
)

type ucConn struct {
	id            int
	wave          int
	gc            gnet.Conn
	fd            int
	local         string
	opens, closes int32
	traffics      int32
	afterClose    int32
	closeHow      string // how the first wave ends this one: close, closecb, action, loopclose
	got           [][]byte
	mu            sync.Mutex
	closedCh      chan struct{}
	cbs           int32
}

type ucHandler struct {
	gnet.BuiltinEventEngine
	fails []string
	mu    sync.Mutex
}

func (h *ucHandler) failf(f string, a ...any) {
	h.mu.Lock()
	if len(h.fails) < 8 {
		h.fails = append(h.fails, fmt.Sprintf(f, a...))
	}
	h.mu.Unlock()
}

func (h *ucHandler) OnOpen(c gnet.Conn) ([]byte, gnet.Action) {
	st, _ := c.Context().(*ucConn)
	if st == nil {
		h.failf("VERIF-KEY:life-unbound OnOpen for a connection without the context its Dial was given")
		return nil, gnet.None
	}
	if atomic.AddInt32(&st.opens, 1) != 1 {
		h.failf("VERIF-KEY:life-open-twice conn%d: OnOpen invoked again", st.id)
	}
	st.gc, st.fd = c, c.Fd()
	if la := c.LocalAddr(); la != nil {
		st.local = la.String()
	}
	return nil, gnet.None
}

func (h *ucHandler) OnTraffic(c gnet.Conn) gnet.Action {
	st, _ := c.Context().(*ucConn)
	b, _ := c.Next(-1)
	if st == nil {
		// a closed connection has lost its context: attribute by the Conn value
		h.failf("VERIF-KEY:life-traffic-after-close OnTraffic (%d bytes %q) on a connection without context (closed, or never opened)", len(b), trunc(b))
		return gnet.None
	}
	if atomic.LoadInt32(&st.closes) > 0 {
		atomic.AddInt32(&st.afterClose, 1)
		h.failf("VERIF-KEY:life-traffic-after-close conn%d (wave %d): OnTraffic after its OnClose (%d bytes %q)", st.id, st.wave, len(b), trunc(b))
		return gnet.None
	}
	if c != st.gc {
		h.failf("VERIF-KEY:life-identity conn%d: OnTraffic with a different Conn value than OnOpen saw", st.id)
	}
	st.mu.Lock()
	st.got = append(st.got, append([]byte(nil), b...))
	st.mu.Unlock()
	atomic.AddInt32(&st.traffics, 1) // after the record: the harness looks at the record as soon as the count moves
	if bytes.HasPrefix(b, []byte("END:")) {
		switch st.closeHow {
		case "action":
			return gnet.Close
		case "loopclose":
			_ = c.EventLoop().Close(c)
		}
	}
	return gnet.None
}

func trunc(b []byte) string {
	if len(b) > 24 {
		b = b[:24]
	}
	return string(b)
}

func (h *ucHandler) OnClose(c gnet.Conn, err error) gnet.Action {
	st, _ := c.Context().(*ucConn)
	if st == nil {
		h.failf("VERIF-KEY:life-close-unbound OnClose for a connection without context (a second OnClose, or one that was never opened)")
		return gnet.None
	}
	if atomic.AddInt32(&st.closes, 1) != 1 {
		h.failf("VERIF-KEY:life-close-twice conn%d (wave %d): OnClose invoked again (err %v)", st.id, st.wave, err)
		return gnet.None
	}
	close(st.closedCh)
	return gnet.None
}

type ucCase struct {
	Loops  int
	ET     bool
	Wave1  []string // how each first-wave socket is closed
	Wave2  int
	Pokes  []string // stale requests on closed first-wave sockets
	Rounds int
	Hammer int // goroutines calling AsyncWrite on each first-wave socket while it is being closed
}

func (c ucCase) String() string {
	return fmt.Sprintf("client loops=%d ET=%v wave1=%v wave2=%d stale=%v rounds=%d writersDuringClose=%d", c.Loops, c.ET, c.Wave1, c.Wave2, c.Pokes, c.Rounds, c.Hammer)
}

const ucBound = 8 * time.Second

var lostInTransit int64 // datagrams that never reached the client socket (UDP loss before the socket), per process

func runClientUDP(cs ucCase) (fails []string, infra string, reused int) {
	h := &ucHandler{}
	opts := []gnet.Option{gnet.WithNumEventLoop(cs.Loops), gnet.WithLogger(&fx.CaptureLogger{}), gnet.WithEdgeTriggeredIO(cs.ET)}
	cli, err := gnet.NewClient(h, opts...)
	if err != nil {
		return nil, "NewClient: " + err.Error(), 0
	}
	if err := cli.Start(); err != nil {
		return nil, "Client.Start: " + err.Error(), 0
	}
	stopped := false
	defer func() {
		if !stopped {
			_ = cli.Stop()
		}
	}()
	peer, err := net.ListenUDP("udp4", &net.UDPAddr{IP: net.ParseIP(fx.Host("udp4"))})
	if err != nil {
		return nil, "peer socket: " + err.Error(), 0
	}
	defer peer.Close()
	type dg struct {
		from string
		b    []byte
	}
	var pmu sync.Mutex
	var inbox []dg
	go func() {
		buf := make([]byte, 2048)
		for {
			n, from, err := peer.ReadFromUDP(buf)
			if err != nil {
				return
			}
			pmu.Lock()
			inbox = append(inbox, dg{from.String(), append([]byte(nil), buf[:n]...)})
			pmu.Unlock()
		}
	}()
	waitInbox := func(pred func(d dg) bool) bool {
		dl := time.Now().Add(ucBound)
		for time.Now().Before(dl) {
			pmu.Lock()
			for _, d := range inbox {
				if pred(d) {
					pmu.Unlock()
					return true
				}
			}
			pmu.Unlock()
			time.Sleep(200 * time.Microsecond)
		}
		return false
	}
	add := func(f string, a ...any) { fails = append(fails, fmt.Sprintf(f, a...)) }
	var all []*ucConn
	dial := func(wave int, how string) *ucConn {
		st := &ucConn{id: len(all), wave: wave, closeHow: how, closedCh: make(chan struct{})}
		all = append(all, st)
		c, err := cli.DialContext("udp4", peer.LocalAddr().String(), st)
		if err != nil {
			infra = "Dial: " + err.Error()
			return nil
		}
		if atomic.LoadInt32(&st.opens) != 1 {
			add("VERIF-KEY:life-open-count conn%d: Dial returned, OnOpen ran %d times", st.id, atomic.LoadInt32(&st.opens))
		}
		if st.gc != nil && c != st.gc {
			add("VERIF-KEY:life-identity conn%d: Dial returned a different Conn than OnOpen saw", st.id)
		}
		st.gc = c
		return st
	}
	exchange := func(st *ucConn, tag string) {
		// socket -> peer
		msg := []byte(fmt.Sprintf("%s:c%d:out", tag, st.id))
		if err := st.gc.AsyncWrite(msg, nil); err != nil {
			add("VERIF-KEY:udpc-write conn%d: AsyncWrite on an open socket: %v", st.id, err)
			return
		}
		if !waitInbox(func(d dg) bool { return bytes.Equal(d.b, msg) && d.from == st.local }) {
			add("VERIF-KEY:udpc-write conn%d: a datagram written to an open socket did not reach the peer from %s within %v", st.id, st.local, ucBound)
			return
		}
		// peer -> socket
		in := []byte(fmt.Sprintf("%s:c%d:in", tag, st.id))
		la, _ := net.ResolveUDPAddr("udp4", st.local)
		before := atomic.LoadInt32(&st.traffics)
		if _, err := peer.WriteToUDP(in, la); err != nil {
			infra = "peer write: " + err.Error()
			return
		}
		dl := time.Now().Add(ucBound)
		for atomic.LoadInt32(&st.traffics) == before && time.Now().Before(dl) {
			time.Sleep(100 * time.Microsecond)
		}
		offered := func(b []byte) bool {
			st.mu.Lock()
			defer st.mu.Unlock()
			for _, g := range st.got {
				if bytes.Equal(g, b) {
					return true
				}
			}
			return false
		}
		if offered(in) || strings.HasPrefix(tag, "END") {
			return
		}
		// Nothing within the bound. UDP may lose a datagram before it reaches the socket (not gnet's
		// matter); a datagram that sits in the socket unread is. A second, different datagram tells the
		// two apart: if the first one shows up now, it was there all along and only this event made
		// the loop look.
		diag := socketDiag(st.fd, st.local)
		marker := []byte(fmt.Sprintf("%s:c%d:again", tag, st.id))
		_, _ = peer.WriteToUDP(marker, la)
		dl = time.Now().Add(ucBound)
		for !offered(marker) && time.Now().Before(dl) {
			time.Sleep(100 * time.Microsecond)
		}
		time.Sleep(5 * time.Millisecond)
		switch {
		case offered(in):
			add("VERIF-KEY:udpc-read conn%d (fd %d, %s): the datagram %q the peer sent was not offered to OnTraffic for %v; it was offered only after a further datagram arrived (OnClose count %d; at the time: %s)", st.id, st.fd, st.local, in, ucBound, atomic.LoadInt32(&st.closes), diag)
		case offered(marker):
			lostInTransit++
		default:
			add("VERIF-KEY:udpc-read conn%d (fd %d, %s): neither the datagram %q nor a second one sent %v later was offered to OnTraffic (OnClose count %d)", st.id, st.fd, st.local, in, ucBound, atomic.LoadInt32(&st.closes))
		}
	}
	// ---- wave 1 ----
	var w1 []*ucConn
	for _, how := range cs.Wave1 {
		st := dial(1, how)
		if st == nil {
			return fails, infra, 0
		}
		w1 = append(w1, st)
	}
	for r := 0; r < cs.Rounds; r++ {
		for _, st := range w1 {
			exchange(st, fmt.Sprintf("r%d", r))
			if infra != "" {
				return fails, infra, 0
			}
		}
	}
	for _, st := range w1 {
		// optionally other goroutines are inside AsyncWrite while the socket is being closed (AsyncWrite
		// on a connected UDP socket sends on the caller's goroutine): the close still has to take
		// effect for every later request
		hammerStop := make(chan struct{})
		var hwg sync.WaitGroup
		for h := 0; h < cs.Hammer; h++ {
			hwg.Add(1)
			go func(gc gnet.Conn) {
				defer hwg.Done()
				for {
					select {
					case <-hammerStop:
						return
					default:
					}
					_ = gc.AsyncWrite([]byte("HAMMER"), nil)
				}
			}(st.gc)
		}
		if cs.Hammer > 0 {
			time.Sleep(200 * time.Microsecond)
		}
		switch st.closeHow {
		case "close":
			_ = st.gc.Close()
		case "closecb":
			_ = st.gc.CloseWithCallback(func(gnet.Conn, error) error { atomic.AddInt32(&st.cbs, 1); return nil })
		default: // the handler closes it when it sees END
			la, _ := net.ResolveUDPAddr("udp4", st.local)
			_, _ = peer.WriteToUDP([]byte(fmt.Sprintf("END:c%d", st.id)), la)
		}
		select {
		case <-st.closedCh:
		case <-time.After(ucBound):
			close(hammerStop)
			hwg.Wait()
			add("VERIF-KEY:life-noclose conn%d: closed by %s, no OnClose within %v", st.id, st.closeHow, ucBound)
			return fails, infra, 0
		}
		time.Sleep(300 * time.Microsecond)
		close(hammerStop)
		hwg.Wait()
	}
	time.Sleep(time.Millisecond) // the descriptors are released right after OnClose
	// ---- wave 2: fresh sockets, which get the released descriptor numbers ----
	var w2 []*ucConn
	oldFds := map[int]bool{}
	for _, st := range w1 {
		oldFds[st.fd] = true
	}
	for i := 0; i < cs.Wave2; i++ {
		st := dial(2, "")
		if st == nil {
			return fails, infra, 0
		}
		if oldFds[st.fd] {
			reused++
		}
		w2 = append(w2, st)
	}
	for _, st := range w2 {
		exchange(st, "w2")
	}
	pmu.Lock()
	inboxBefore := len(inbox)
	pmu.Unlock()
	// ---- stale requests on the closed first-wave sockets ----
	var staleErrs []string
	var pokeWG sync.WaitGroup
	for i, poke := range cs.Pokes {
		st := w1[i%len(w1)]
		switch poke {
		case "wake":
			_ = st.gc.Wake(nil)
		case "close":
			_ = st.gc.Close()
		case "closecb":
			pokeWG.Add(1)
			if err := st.gc.CloseWithCallback(func(gnet.Conn, error) error { pokeWG.Done(); return nil }); err != nil {
				pokeWG.Done()
			}
		case "asyncwrite":
			err := st.gc.AsyncWrite([]byte(fmt.Sprintf("POISON:c%d", st.id)), nil)
			staleErrs = append(staleErrs, fmt.Sprintf("conn%d: %v", st.id, err))
			if err == nil {
				add("VERIF-KEY:life-stale-write conn%d: AsyncWrite on a closed socket reported success", st.id)
			} else if !errors.Is(err, net.ErrClosed) {
				add("VERIF-KEY:life-stale-write conn%d: AsyncWrite on a closed socket completed with %v instead of the closed-connection error: the request reached the descriptor number", st.id, err)
			}
		}
	}
	waitDone := make(chan struct{})
	go func() { pokeWG.Wait(); close(waitDone) }()
	select {
	case <-waitDone:
	case <-time.After(ucBound):
		add("VERIF-KEY:life-stale-callback a CloseWithCallback on a closed socket never invoked its callback")
	}
	// a settled loop: one more exchange per second-wave socket proves they are alive and flushes effects
	for _, st := range w2 {
		if atomic.LoadInt32(&st.closes) > 0 {
			add("VERIF-KEY:life-stale-acts conn%d (second wave, fd %d) was closed although nobody closed it (stale requests on closed sockets: %v)", st.id, st.fd, cs.Pokes)
			continue
		}
		exchange(st, "after")
	}
	time.Sleep(2 * time.Millisecond)
	pmu.Lock()
	for _, d := range inbox[inboxBefore:] {
		if bytes.HasPrefix(d.b, []byte("POISON")) {
			add("VERIF-KEY:life-stale-write the peer received %q from %s: a write on a closed socket went out (through whoever owns the descriptor number now)", d.b, d.from)
			break
		}
	}
	pmu.Unlock()
	for _, st := range w2 {
		st.mu.Lock()
		for _, g := range st.got {
			if !bytes.Contains(g, []byte(fmt.Sprintf(":c%d:", st.id))) {
				add("VERIF-KEY:life-stale-acts conn%d (second wave) was offered %q, which nobody sent to it", st.id, trunc(g))
				break
			}
		}
		st.mu.Unlock()
	}
	// ---- stop: every socket that is still open sees its OnClose ----
	stopped = true
	if err := cli.Stop(); err != nil {
		add("VERIF-KEY:life-stop Client.Stop: %v", err)
	}
	for _, st := range all {
		if o, c := atomic.LoadInt32(&st.opens), atomic.LoadInt32(&st.closes); o != 1 || c != 1 {
			add("VERIF-KEY:life-close-count conn%d (wave %d, closed by %q): %d OnOpen, %d OnClose after Client.Stop returned", st.id, st.wave, st.closeHow, o, c)
		}
	}
	h.mu.Lock()
	fails = append(fails, h.fails...)
	h.mu.Unlock()
	return fails, infra, reused
}

func TestC04ClientUDP(t *testing.T) {
	st := vstat.New("C04.client_udp")
	defer st.Flush()
	rapid.Check(t, func(t *rapid.T) {
		var cs ucCase
		cs.Loops = rapid.SampledFrom([]int{1, 1, 2}).Draw(t, "loops")
		cs.ET = rapid.Bool().Draw(t, "et")
		n1 := rapid.IntRange(1, 4).Draw(t, "wave1")
		for i := 0; i < n1; i++ {
			// (a Close action returned from OnTraffic is ignored for datagram sockets: readUDP only looks
			// for Shutdown. Nothing in the property says it must end the socket, so it is not used here.)
			cs.Wave1 = append(cs.Wave1, rapid.SampledFrom([]string{"close", "closecb", "loopclose"}).Draw(t, "closeHow"))
		}
		cs.Wave2 = rapid.IntRange(0, 4).Draw(t, "wave2")
		np := rapid.IntRange(0, 5).Draw(t, "pokes")
		for i := 0; i < np; i++ {
			cs.Pokes = append(cs.Pokes, rapid.SampledFrom([]string{"wake", "close", "closecb", "asyncwrite"}).Draw(t, "poke"))
		}
		cs.Rounds = rapid.IntRange(0, 2).Draw(t, "rounds")
		cs.Hammer = rapid.SampledFrom([]int{0, 0, 2, 8}).Draw(t, "writersDuringClose")
		fails, infra, reused := runClientUDP(cs)
		if infra != "" {
			t.Fatalf("VERIF-INFRA %s\n%s", infra, cs)
		}
		st.Eval()
		nt := reused > 0 && len(cs.Pokes) > 0
		if nt {
			st.NonTrivial(vstat.Hash(cs.String()))
			st.Label("stale_requests_with_descriptor_numbers_reused")
		}
		if st.WantSample(nt) {
			st.Sample(nt, cs.String())
		}
		if len(fails) > 0 {
			t.Fatalf("%s\ncase: %s", strings.Join(fails, "\n"), cs)
		}
	})
	st.LabelN("datagrams_lost_before_reaching_the_socket_not_judged", lostInTransit)
}

// socketDiag: the kernel's view of a socket that seems to be ignored: its receive queue
// (/proc/net/udp) and its entries in the epoll sets of the process.
func socketDiag(fd int, local string) string {
	var out []string
	if i := strings.LastIndex(local, ":"); i >= 0 {
		if port, err := strconv.Atoi(local[i+1:]); err == nil {
			if b, err := os.ReadFile("/proc/net/udp"); err == nil {
				hex := fmt.Sprintf(":%04X ", port)
				for _, ln := range strings.Split(string(b), "\n") {
					f := strings.Fields(ln)
					if len(f) > 4 && strings.HasSuffix(f[1]+" ", hex) {
						out = append(out, "udp "+f[1]+" -> "+f[2]+" tx:rx "+f[4])
					}
				}
			}
		}
	}
	for ino, ents := range lifex.PolledInodes() {
		for _, e := range ents {
			if strings.HasSuffix(e, fmt.Sprintf("tfd %d", fd)) {
				out = append(out, fmt.Sprintf("%s (ino %d)", e, ino))
			}
		}
	}
	if b, err := os.ReadFile("/proc/self/fdinfo/" + strconv.Itoa(fd)); err == nil {
		out = append(out, "fdinfo: "+strings.ReplaceAll(strings.TrimSpace(string(b)), "\n", " | "))
	}
	return strings.Join(out, "; ")
}
