package c04

// OnClose reports a non-nil error for an I/O-induced close - also when the failing call is
// the write of the OnOpen reply, a write from inside OnTraffic, or the read - and a nil one
// for a close the application asked for; exactly one OnClose either way, none before OnOpen,
// and CountConnections returns to the number of connections still open.

import (
	"fmt"
	"net"
	"sync/atomic"
	"testing"
	"time"

	"golang.org/x/sys/unix"
	"pgregory.net/rapid"

	gnet "github.com/panjf2000/gnet/v2"
	"github.com/panjf2000/gnet/v2/internal/vshim"
	"github.com/panjf2000/gnet/v2/verifx/fx"
	"github.com/panjf2000/gnet/v2/verifx/vstat"
)

type ioConn struct {
	reply         []byte
	farewell      bool // OnClose writes to the connection (a handler saying good-bye)
	opens, closes int32
	traffics      int32
	afterClose    int32
	closeErr      error
	closedCh      chan struct{}
}

func (c *ioConn) OnOpen(gnet.Conn) ([]byte, gnet.Action) {
	atomic.AddInt32(&c.opens, 1)
	return c.reply, gnet.None
}

func (c *ioConn) OnTraffic(gc gnet.Conn) gnet.Action {
	if atomic.LoadInt32(&c.closes) > 0 {
		atomic.AddInt32(&c.afterClose, 1)
	}
	atomic.AddInt32(&c.traffics, 1)
	b, _ := gc.Next(-1)
	_, _ = gc.Write(b)
	return gnet.None
}

func (c *ioConn) OnClose(gc gnet.Conn, err error) gnet.Action {
	if atomic.AddInt32(&c.closes, 1) == 1 {
		c.closeErr = err
		if c.farewell {
			_, _ = gc.Write([]byte("bye"))
		}
		close(c.closedCh)
	}
	return gnet.None
}

func TestC04IOErrorCause(t *testing.T) {
	st := vstat.New("C04.io_error_cause")
	defer st.Flush()
	rapid.Check(t, func(t *rapid.T) {
		cfg := fx.DrawCfg(t, fx.DrawOpt{ServerOnly: true, MaxLoops: 3})
		cfg.RcvBuf, cfg.SndBuf, cfg.Ticker = 0, 0, false
		site := rapid.SampledFrom([]string{"(*conn).open/write", "(*conn).open/write", "(*conn).write/write", "(*eventloop).read/read"}).Draw(t, "site")
		errno := rapid.SampledFrom([]unix.Errno{unix.ECONNRESET, unix.EPIPE, unix.ETIMEDOUT}).Draw(t, "errno")
		farewell := rapid.Bool().Draw(t, "farewell")
		farewellFails := farewell && rapid.Bool().Draw(t, "farewellFails")
		nby := rapid.IntRange(0, 3).Draw(t, "bystanders")
		desc := fmt.Sprintf("%s fault: %s errno=%v handlerWritesInOnClose=%v thatWriteFailsToo=%v bystanders=%d", cfg, site, errno, farewell, farewellFails, nby)
		plan := &vshim.Plan{}
		vshim.Install(plan)
		defer vshim.Install(nil)
		e, err := fx.Start(cfg, fx.EngineHooks{})
		if err != nil {
			t.Fatalf("VERIF-INFRA %v", err)
		}
		stopped := false
		defer func() {
			if !stopped {
				_ = e.Stop()
			}
		}()
		var peers []net.Conn
		defer func() {
			for _, p := range peers {
				p.Close()
			}
		}()
		var bys []*ioConn
		for i := 0; i < nby; i++ {
			b := &ioConn{closedCh: make(chan struct{})}
			p, _, err := e.Connect(b)
			if err != nil {
				t.Fatalf("VERIF-INFRA %v", err)
			}
			bys, peers = append(bys, b), append(peers, p)
		}
		v := &ioConn{closedCh: make(chan struct{}), farewell: farewell}
		if site == "(*conn).open/write" {
			v.reply = []byte("HELLO")
		}
		f := &vshim.Fault{Site: site, Fd: -1, K: 1, Errno: errno}
		plan.AddFault(f)
		if farewellFails {
			// the handler's good-bye in OnClose fails as well (the first fault is delivered and out of the way by then)
			plan.AddFault(&vshim.Fault{Site: "(*conn).write/write", Fd: -1, K: 1, Errno: unix.EPIPE})
		}
		p, _, err := e.Connect(v)
		if err != nil {
			t.Fatalf("VERIF-INFRA %v", err)
		}
		peers = append(peers, p)
		if site != "(*conn).open/write" {
			_, _ = p.Write([]byte("ping")) // read, then the echo write
		}
		fail := func(key, format string, a ...any) {
			t.Fatalf("VERIF-KEY:%s %s\ncase: %s", key, fmt.Sprintf(format, a...), desc)
		}
		select {
		case <-v.closedCh:
		case <-time.After(8 * time.Second):
			if atomic.LoadInt32(&f.Delivered) == 0 {
				st.Eval()
				st.Label("fault_not_reached")
				return
			}
			fail("life-noclose", "%v was injected at %s (delivered) and no OnClose followed within 8s", errno, site)
		}
		time.Sleep(3 * time.Millisecond)
		st.Eval()
		st.NonTrivial(vstat.Hash(desc))
		st.Label("site " + site)
		if st.WantSample(true) {
			st.Sample(true, desc)
		}
		if v.closeErr == nil {
			fail("life-close-err", "the connection ended because %s failed with %v, OnClose reported a nil error (nil is for closes the application asked for)", site, errno)
		}
		if n := atomic.LoadInt32(&v.closes); n != 1 {
			fail("life-close-twice", "%d OnClose calls for the connection whose %s failed", n, site)
		}
		if n := atomic.LoadInt32(&v.opens); n != 1 {
			fail("life-open", "%d OnOpen calls", n)
		}
		if n := atomic.LoadInt32(&v.afterClose); n != 0 {
			fail("life-traffic-after-close", "%d OnTraffic calls after OnClose", n)
		}
		if got := e.Eng.CountConnections(); got != nby {
			fail("life-count", "CountConnections = %d with %d connections open after the failed one was closed", got, nby)
		}
		for i, b := range bys {
			if n := atomic.LoadInt32(&b.closes); n != 0 {
				fail("life-bystander", "bystander %d saw OnClose (%v)", i, b.closeErr)
			}
		}
		stopped = true
		if err := e.Stop(); err != nil {
			fail("life-stop", "engine stop: %v", err)
		}
		for i, b := range bys {
			if n := atomic.LoadInt32(&b.closes); n != 1 {
				fail("life-close-count", "bystander %d: %d OnClose calls by the time Run returned", i, n)
			}
			if b.closeErr != nil {
				fail("life-close-err", "bystander %d was closed by the engine stop, OnClose reported %v", i, b.closeErr)
			}
		}
		if n := atomic.LoadInt32(&v.closes); n != 1 {
			fail("life-close-twice", "%d OnClose calls for the failed connection by the time Run returned", n)
		}
		if len(plan.NotOpenCloses) > 0 {
			fail("life-double-close", "close(2) on descriptor number(s) %v that were not open", plan.NotOpenCloses)
		}
		for _, pl := range e.Logger.Panics() {
			fail("panic-logged", "%s", pl)
		}
	})
}
