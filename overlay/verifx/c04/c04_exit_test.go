package c04

// A loop that leaves because of a failure it cannot recover from (accept fails with
// EMFILE/ENFILE/ENOMEM, epoll_wait fails) takes the engine down - and, like every other
// way for a connection to end, that is no excuse for a missing OnClose: every connection
// that was opened sees exactly one by the time Run returns.

import (
	"fmt"
	"net"
	"strings"
	"sync"
	"sync/atomic"
	"testing"
	"time"

	"golang.org/x/sys/unix"
	"pgregory.net/rapid"

	gnet "github.com/panjf2000/gnet/v2"
	"github.com/panjf2000/gnet/v2/internal/vshim"
	"github.com/panjf2000/gnet/v2/verifx/fx"
	"github.com/panjf2000/gnet/v2/verifx/vstat"
)

type exitConn struct {
	id            int
	opens, closes int32
	traffics      int32
	afterClose    int32
}

func (c *exitConn) OnOpen(gnet.Conn) ([]byte, gnet.Action) {
	atomic.AddInt32(&c.opens, 1)
	return nil, gnet.None
}

func (c *exitConn) OnTraffic(gc gnet.Conn) gnet.Action {
	if atomic.LoadInt32(&c.closes) > 0 {
		atomic.AddInt32(&c.afterClose, 1)
	}
	atomic.AddInt32(&c.traffics, 1)
	b, _ := gc.Next(-1)
	_, _ = gc.Write(b)
	return gnet.None
}

func (c *exitConn) OnClose(gnet.Conn, error) gnet.Action {
	atomic.AddInt32(&c.closes, 1)
	return gnet.None
}

const exitBound = 8 * time.Second

func TestC04LoopExit(t *testing.T) {
	st := vstat.New("C04.loop_exit")
	defer st.Flush()
	rapid.Check(t, func(t *rapid.T) {
		cfg := fx.DrawCfg(t, fx.DrawOpt{ServerOnly: true, MaxLoops: 4})
		cfg.RcvBuf, cfg.Ticker = 0, false
		nc := rapid.IntRange(2, 8).Draw(t, "conns")
		kind := rapid.SampledFrom([]string{"accept", "accept", "epoll_wait"}).Draw(t, "site")
		var site string
		var errno unix.Errno
		k := 1
		if kind == "accept" {
			site = "(*eventloop).accept0/accept4"
			if cfg.ReusePort {
				site = "(*eventloop).accept/accept4"
			}
			errno = rapid.SampledFrom([]unix.Errno{unix.EMFILE, unix.ENFILE, unix.ENOMEM, unix.ENOBUFS}).Draw(t, "errno")
		} else {
			site = "(*Poller).Polling/epoll_wait"
			errno = rapid.SampledFrom([]unix.Errno{unix.EBADF, unix.EINVAL, unix.EFAULT}).Draw(t, "errno")
			k = rapid.IntRange(1, 6).Draw(t, "k")
		}
		desc := fmt.Sprintf("%s conns=%d fault: %s errno=%v k=%d", cfg, nc, site, errno, k)
		plan := &vshim.Plan{}
		vshim.Install(plan)
		defer vshim.Install(nil)
		e, err := fx.Start(cfg, fx.EngineHooks{})
		if err != nil {
			t.Fatalf("VERIF-INFRA %v", err)
		}
		var conns []*exitConn
		var peers []net.Conn
		defer func() {
			for _, p := range peers {
				p.Close()
			}
		}()
		for i := 0; i < nc; i++ {
			c := &exitConn{id: i}
			p, _, err := e.Connect(c)
			if err != nil {
				_ = e.Stop()
				t.Fatalf("VERIF-INFRA %v", err)
			}
			conns = append(conns, c)
			peers = append(peers, p)
		}
		f := &vshim.Fault{Site: site, Fd: -1, K: k, Errno: errno}
		plan.AddFault(f)
		// make the site be reached
		var wg sync.WaitGroup
		probeLocal := "-"
		if kind == "accept" {
			netw := cfg.Net
			if c, err := net.DialTimeout(netw, e.Addr, 2*time.Second); err == nil {
				probeLocal = c.LocalAddr().String()
				defer c.Close()
			}
		} else {
			for r := 0; r < 4; r++ {
				for _, p := range peers {
					wg.Add(1)
					go func(p net.Conn) {
						defer wg.Done()
						_ = p.SetDeadline(time.Now().Add(time.Second))
						if _, err := p.Write([]byte("ping")); err == nil {
							buf := make([]byte, 4)
							_, _ = p.Read(buf)
						}
					}(p)
				}
				wg.Wait()
			}
		}
		// the accept happens on the engine's own time: wait for the fault to strike
		for dl := time.Now().Add(3 * time.Second); atomic.LoadInt32(&f.Delivered) == 0 && kind == "accept" && probeLocal != "-" && time.Now().Before(dl); {
			time.Sleep(100 * time.Microsecond)
		}
		delivered := atomic.LoadInt32(&f.Delivered) == 1
		var fails []string
		if delivered {
			if _, ok := e.WaitDone(exitBound); !ok {
				fails = append(fails, fmt.Sprintf("VERIF-KEY:life-exit-hang %v at %s made its loop leave, but Run did not return within %v", errno, site, exitBound))
				_ = e.Stop()
			}
		} else {
			if err := e.Stop(); err != nil {
				fails = append(fails, "VERIF-KEY:life-stop "+err.Error())
			}
		}
		for _, c := range conns {
			o, cl := atomic.LoadInt32(&c.opens), atomic.LoadInt32(&c.closes)
			if o != 1 || cl != 1 {
				fails = append(fails, fmt.Sprintf("VERIF-KEY:life-close-count conn%d: %d OnOpen and %d OnClose calls by the time Run returned (the engine went down because %v struck at %s: delivered=%v)", c.id, o, cl, errno, site, delivered))
				break
			}
			if atomic.LoadInt32(&c.afterClose) > 0 {
				fails = append(fails, fmt.Sprintf("VERIF-KEY:life-traffic-after-close conn%d: OnTraffic after OnClose", c.id))
			}
		}
		for _, p := range e.Logger.Panics() {
			fails = append(fails, "VERIF-KEY:panic-logged "+p)
		}
		// (when the fault did not strike the engine was stopped with Stop while the probe connection may
		// still have been on its way through the acceptor: the known accept-at-shutdown finding of C07,
		// which is not this check's matter)
		if o := plan.Owned(); delivered && len(o) > 0 && len(fails) == 0 {
			var what []string
			for _, fd := range o {
				la, _ := unix.Getsockname(fd)
				ra, _ := unix.Getpeername(fd)
				what = append(what, fmt.Sprintf("fd %d local %+v peer %+v", fd, la, ra))
			}
			fails = append(fails, fmt.Sprintf("VERIF-KEY:life-exit-fd-leak accepted descriptors %v were never closed after the engine went down (%s; the probe connection dialled from %s; calls per site %v; unbound events %v; log %v)", o, strings.Join(what, "; "), probeLocal, plan.Sites, unboundEvents(e), e.Logger.Lines()))
		}
		st.Eval()
		if delivered {
			st.NonTrivial(vstat.Hash(desc))
			st.Label("loop_left_because_of_" + kind)
		} else {
			st.Label("fault_site_not_reached")
		}
		if st.WantSample(delivered) {
			st.Sample(delivered, desc)
		}
		if len(fails) > 0 {
			t.Fatalf("%s\ncase: %s", strings.Join(fails, "\n"), desc)
		}
	})
}

func unboundEvents(e *fx.Engine) []string {
	var out []string
	for _, ev := range e.Log.Events() {
		if ev.Conn < 0 {
			out = append(out, ev.Kind)
		}
	}
	return out
}
