// C04 — per-connection callback life cycle: open once, close once, nothing after close.
package c04

import (
	"fmt"
	"os"
	"strings"
	"sync/atomic"
	"testing"

	"pgregory.net/rapid"

	"github.com/panjf2000/gnet/v2/verifx/fx"
	"github.com/panjf2000/gnet/v2/verifx/lifex"
	"github.com/panjf2000/gnet/v2/verifx/vstat"
)

// judge applies the life-cycle automaton to a finished session.
func judge(s *lifex.Session) []string {
	var fails []string
	add := func(key, f string, a ...any) {
		fails = append(fails, fmt.Sprintf("VERIF-KEY:%s %s", key, fmt.Sprintf(f, a...)))
	}
	// per-connection event order from the engine-wide log
	type lc struct{ open, traffic, close int }
	seen := map[int]*lc{}
	for _, ev := range s.E.Log.Events() {
		if ev.Conn < 0 {
			if strings.HasSuffix(ev.Kind, "-unbound") && ev.Kind != "open-unbound" {
				add("life-unbound", "callback %s for a connection that never had an OnOpen", ev.Kind)
			}
			continue
		}
		l := seen[ev.Conn]
		if l == nil {
			l = &lc{}
			seen[ev.Conn] = l
		}
		switch ev.Kind {
		case "open":
			if l.open > 0 || l.traffic > 0 || l.close > 0 {
				add("life-order", "conn%d: OnOpen after %d open / %d traffic / %d close events", ev.Conn, l.open, l.traffic, l.close)
			}
			l.open++
		case "traffic":
			if l.open == 0 || l.close > 0 {
				add("life-order", "conn%d: OnTraffic with %d open / %d close events before it", ev.Conn, l.open, l.close)
			}
			l.traffic++
		case "close":
			if l.open == 0 || l.close > 0 {
				add("life-order", "conn%d: OnClose with %d open / %d close events before it", ev.Conn, l.open, l.close)
			}
			l.close++
		}
	}
	for _, c := range s.Conns {
		o, cl := atomic.LoadInt32(&c.Opens), atomic.LoadInt32(&c.Closes)
		if o != 1 {
			add("life-open-count", "conn%d: %d OnOpen calls", c.ID, o)
		}
		if cl != o {
			add("life-close-count", "conn%d: %d OnOpen and %d OnClose calls after the engine stopped", c.ID, o, cl)
		}
		if cl == 1 {
			switch {
			case c.CloseErr == nil && !c.LocalAtClose:
				add("life-close-err", "conn%d: OnClose reported a nil error although no local close had been requested (peer cause issued: %v)", c.ID, c.PeerAtClose)
			case c.CloseErr != nil && !c.PeerAtClose:
				add("life-close-err", "conn%d: OnClose reported %v although only local close requests had been issued", c.ID, c.CloseErr)
			}
		}
		if is, got := atomic.LoadInt32(&c.CBIssued), atomic.LoadInt32(&c.CBs); is != got {
			add("life-closecb", "conn%d: %d CloseWithCallback requests were accepted, %d callbacks ran", c.ID, is, got)
		}
	}
	return fails
}

func TestC04Lifecycle(t *testing.T) {
	st := vstat.New("C04.lifecycle")
	defer st.Flush()
	rapid.Check(t, func(t *rapid.T) {
		cs := lifex.DrawCase(t, fx.DrawOpt{})
		run := func() (*lifex.Session, []string) {
			s := lifex.Run(cs, lifex.Hooks{Bait: true}) // bait on released descriptor numbers makes a stale read visible
			if s.Infra != "" {
				return s, nil
			}
			return s, append(append([]string(nil), s.Fails...), judge(s)...)
		}
		s, fails := run()
		if s.Infra != "" {
			t.Fatalf("VERIF-INFRA %s\n%s", s.Infra, cs)
		}
		if len(s.Stalls) > 0 && len(fails) == 0 {
			st.Label("stall_candidate")
			s2, fails2 := run()
			if s2.Infra == "" && len(s2.Stalls) == 0 && len(fails2) == 0 {
				st.Label("stall_not_confirmed")
			} else {
				fails = append(append(fails, s.Stalls...), fails2...)
			}
		} else {
			fails = append(fails, s.Stalls...)
		}
		st.Eval()
		nt := false
		for _, c := range s.Conns {
			st.Label("connections")
			if c.InsideClose || c.MultiCause {
				nt = true
				st.NonTrivial(vstat.Hash(cs.Cfg.String(), fmt.Sprint(c.Spec)))
			}
			if c.InsideClose {
				st.Label("conn_close_requested_inside_callback")
			}
			if c.MultiCause {
				st.Label("conn_racing_close_causes")
			}
			if len(c.Spec.StalePokes) > 0 && c.Wave == 1 {
				st.Label("conn_stale_requests_after_close")
			}
		}
		if s.CountChecks > 0 {
			st.LabelN("count_connections_checks", int64(s.CountChecks))
		}
		if cs.Cfg.Client {
			st.Label("client_side")
		}
		if st.WantSample(nt) {
			st.Sample(nt, cs.String())
		}
		if len(fails) > 0 {
			t.Fatalf("%s\ncase:\n%s", strings.Join(fails, "\n"), cs)
		}
	})
}

func TestMain(m *testing.M) {
	code := m.Run()
	fx.Cleanup()
	os.Exit(code)
}
