// C13 — the lock-free task queue is a linearizable FIFO queue.
//
// Layer 1: the real queue code (its sync/atomic calls rewritten to
// internal/vsched/vatomic by /verif/tools/instr) runs under the harness-owned
// scheduler; the interleaving of single atomic operations is drawn by rapid and
// the resulting call/return history is checked by porcupine against a
// sequential FIFO model. Layer 2: real-goroutine stress with an exactly-once /
// per-producer-order oracle.
package c13

import (
	"fmt"
	"sort"
	"strings"
	"sync"
	"testing"

	"github.com/anishathalye/porcupine"
	"pgregory.net/rapid"

	"github.com/panjf2000/gnet/v2/internal/vsched"
	"github.com/panjf2000/gnet/v2/pkg/queue"
	"github.com/panjf2000/gnet/v2/verifx/vstat"
)

type qin struct {
	enq bool
	v   int
}
type qout struct{ v int } // dequeue result, -1 = "empty"

var fifoModel = porcupine.Model{
	Init: func() interface{} { return []int(nil) },
	Step: func(state, input, output interface{}) (bool, interface{}) {
		q := state.([]int)
		i := input.(qin)
		if i.enq {
			return true, append(append([]int(nil), q...), i.v)
		}
		o := output.(qout)
		if len(q) == 0 {
			return o.v == -1, q
		}
		return o.v == q[0], append([]int(nil), q[1:]...)
	},
	Equal: func(a, b interface{}) bool {
		x, y := a.([]int), b.([]int)
		if len(x) != len(y) {
			return false
		}
		for i := range x {
			if x[i] != y[i] {
				return false
			}
		}
		return true
	},
	DescribeOperation: func(input, output interface{}) string {
		i := input.(qin)
		if i.enq {
			return fmt.Sprintf("Enqueue(%d)", i.v)
		}
		return fmt.Sprintf("Dequeue()->%d", output.(qout).v)
	},
}

// script: per thread a list of operations; true = Enqueue.
type script [][]bool

func (s script) String() string {
	var parts []string
	for _, th := range s {
		var b strings.Builder
		for _, e := range th {
			if e {
				b.WriteByte('E')
			} else {
				b.WriteByte('D')
			}
		}
		parts = append(parts, b.String())
	}
	return strings.Join(parts, "|")
}

type chooser func(cands []int, last int) int

// runScript executes one script under one schedule; returns a failure text or "".
func runScript(sc script, choose chooser, st *vstat.Stats, schedDesc string) string {
	q := queue.NewLockFreeQueue()
	s := vsched.New()
	defer s.Close()
	var events []porcupine.Event
	type opRec struct {
		th        int
		enq       bool
		v         int
		call, ret int64
		res       int
	}
	var ops []*opRec
	val := map[*queue.Task]int{}
	next := 1
	perProducer := map[int][]int{} // thread -> values in enqueue order
	for th := range sc {
		th := th
		tasks := make([]*queue.Task, len(sc[th]))
		vals := make([]int, len(sc[th]))
		for i, enq := range sc[th] {
			if enq {
				tasks[i] = &queue.Task{}
				vals[i] = next
				val[tasks[i]] = next
				perProducer[th] = append(perProducer[th], next)
				next++
			}
		}
		s.Go(fmt.Sprintf("t%d", th), func() {
			for i, enq := range sc[th] {
				rec := &opRec{th: th, enq: enq, v: vals[i], call: s.Tick()}
				ops = append(ops, rec)
				id := len(ops) - 1
				events = append(events, porcupine.Event{ClientId: th, Kind: porcupine.CallEvent, Value: qin{enq, vals[i]}, Id: id})
				o := qout{}
				if enq {
					q.Enqueue(tasks[i])
				} else {
					r := q.Dequeue()
					switch {
					case r == nil:
						o.v = -1
					default:
						v, known := val[r]
						if !known {
							v = -2 // a task nobody enqueued
						}
						o.v = v
					}
				}
				rec.ret, rec.res = s.Tick(), o.v
				events = append(events, porcupine.Event{ClientId: th, Kind: porcupine.ReturnEvent, Value: o, Id: id})
			}
		})
	}
	_, err := s.Run(choose, 200000)
	if err != nil {
		_ = s.Finish(1000)
		return "VERIF-INFRA " + err.Error()
	}
	if s.Misuse != "" {
		return "VERIF-INFRA vsched: " + s.Misuse
	}
	if s.Panic != "" {
		return "VERIF-KEY:queue-panic " + s.Panic
	}
	render := func() string {
		var b strings.Builder
		fmt.Fprintf(&b, "script %s, %s\n", sc, schedDesc)
		for _, r := range ops {
			if r.enq {
				fmt.Fprintf(&b, "  t%d Enqueue(%d)      [%d,%d]\n", r.th, r.v, r.call, r.ret)
			} else {
				fmt.Fprintf(&b, "  t%d Dequeue() -> %d  [%d,%d]\n", r.th, r.res, r.call, r.ret)
			}
		}
		return b.String()
	}
	// non-trivial: >= 2 operations overlap in time, one of them a Dequeue
	overlap := false
	for i, a := range ops {
		for _, b := range ops[i+1:] {
			if a.th != b.th && a.call < b.ret && b.call < a.ret && (!a.enq || !b.enq) {
				overlap = true
			}
		}
	}
	st.Eval()
	if overlap {
		var tr []string
		for _, e := range events {
			tr = append(tr, fmt.Sprintf("%d%v%v", e.ClientId, e.Kind, e.Value))
		}
		st.NonTrivial(vstat.Hash(strings.Join(tr, ",")))
		st.Label("overlapping_dequeue")
	} else {
		st.Label("no_overlap")
	}
	if st.WantSample(overlap) {
		st.Sample(overlap, render())
	}
	for _, r := range ops {
		if r.res == -2 {
			return "VERIF-KEY:queue-invented a Dequeue returned a task that was never enqueued\n" + render()
		}
	}
	if !porcupine.CheckEvents(fifoModel, events) {
		return "VERIF-KEY:queue-nonlinearizable the history is not linearizable w.r.t. a FIFO queue\n" + render()
	}
	// quiescence: Length/IsEmpty agree with what is left, draining returns the
	// rest exactly once in per-producer order
	deq := map[int]bool{}
	for _, r := range ops {
		if !r.enq && r.res > 0 {
			deq[r.res] = true
		}
	}
	left := (next - 1) - len(deq)
	if int(q.Length()) != left || q.IsEmpty() != (left == 0) {
		return fmt.Sprintf("VERIF-KEY:queue-length at quiescence Length() = %d, IsEmpty() = %v, but %d tasks are in the queue\n%s", q.Length(), q.IsEmpty(), left, render())
	}
	var drained []int
	for i := 0; i <= left; i++ {
		r := q.Dequeue()
		if r == nil {
			break
		}
		drained = append(drained, val[r])
	}
	if len(drained) != left {
		return fmt.Sprintf("VERIF-KEY:queue-drain draining returned %d tasks, %d were left\n%s", len(drained), left, render())
	}
	pos := map[int]int{}
	for i, v := range drained {
		if deq[v] {
			return fmt.Sprintf("VERIF-KEY:queue-duplicate task %d was dequeued twice\n%s", v, render())
		}
		deq[v] = true
		pos[v] = i
	}
	for th, vs := range perProducer {
		last := -1
		for _, v := range vs {
			if p, ok := pos[v]; ok {
				if p < last {
					return fmt.Sprintf("VERIF-KEY:queue-order tasks of producer t%d left the queue out of order\n%s", th, render())
				}
				last = p
			}
		}
	}
	if q.Length() != 0 || !q.IsEmpty() || q.Dequeue() != nil {
		return fmt.Sprintf("VERIF-KEY:queue-length after draining Length() = %d, IsEmpty() = %v\n%s", q.Length(), q.IsEmpty(), render())
	}
	return ""
}

func drawScript(t *rapid.T, maxThreads, maxOps int) script {
	n := rapid.IntRange(2, maxThreads).Draw(t, "threads")
	sc := make(script, n)
	for i := range sc {
		k := rapid.IntRange(1, maxOps).Draw(t, "nops")
		sc[i] = make([]bool, k)
		for j := range sc[i] {
			sc[i][j] = rapid.Bool().Draw(t, "enq")
		}
	}
	return sc
}

// pctChooser: random thread priorities plus d priority-change points (PCT).
func pctChooser(prio []int, changeAt map[int]bool) (chooser, func() int) {
	step := 0
	low := -1
	return func(cands []int, last int) int {
		step++
		if changeAt[step] && last >= 0 {
			prio[last] = low
			low--
		}
		best := 0
		for i, c := range cands {
			if prio[c] > prio[cands[best]] {
				best = i
			}
		}
		return best
	}, func() int { return step }
}

func TestC13Scheduled(t *testing.T) {
	st := vstat.New("C13.scheduled")
	defer st.Flush()
	rapid.Check(t, func(t *rapid.T) {
		sc := drawScript(t, 4, 5)
		var choose chooser
		desc := ""
		if rapid.Bool().Draw(t, "pct") {
			prio := rapid.Permutation([]int{10, 20, 30, 40}).Draw(t, "prio")[:4]
			d := rapid.IntRange(1, 3).Draw(t, "d")
			ch := map[int]bool{}
			var pts []int
			for i := 0; i < d; i++ {
				p := rapid.IntRange(1, 120).Draw(t, "changeAt")
				ch[p] = true
				pts = append(pts, p)
			}
			sort.Ints(pts)
			choose, _ = pctChooser(prio, ch)
			desc = fmt.Sprintf("PCT prio %v change points %v", prio[:len(sc)], pts)
		} else {
			var picks []int
			choose = func(cands []int, last int) int {
				// a run-length bias: keep the last thread with probability 1/2
				k := rapid.IntRange(0, 2*len(cands)-1).Draw(t, "pick")
				if k >= len(cands) {
					for i, c := range cands {
						if c == last {
							picks = append(picks, c)
							return i
						}
					}
					k -= len(cands)
				}
				picks = append(picks, cands[k])
				return k
			}
			desc = "random walk"
		}
		if msg := runScript(sc, choose, st, desc); msg != "" {
			t.Fatal(msg)
		}
	})
}

// Bounded-exhaustive: every schedule with at most `bound` pre-emptions for tiny
// scripts (all scripts of 2 threads x up to 2 operations).
func TestC13Exhaustive(t *testing.T) {
	st := vstat.New("C13.exhaustive")
	defer st.Flush()
	smallBound, bigBound := 3, 2
	if vstat.Thorough() {
		smallBound, bigBound = 5, 4
	}
	var scripts []script
	for a := 0; a < 4; a++ {
		for b := 0; b < 4; b++ {
			scripts = append(scripts,
				script{{a&1 == 1, a&2 == 2}, {b&1 == 1, b&2 == 2}})
		}
	}
	scripts = append(scripts, script{{true}, {false}}, script{{true}, {true}}, script{{false}, {false}}, script{{true, false}, {false}, {true}})
	nSmall := len(scripts)
	// larger scripts with a smaller bound: three operations per thread, three threads
	scripts = append(scripts,
		script{{true, true, false}, {false, true, false}},
		script{{true, false, true}, {true, false, false}},
		script{{true, false}, {true, false}, {false, true}},
		script{{true, true}, {false, false}, {true, false}})
	k, n := vstat.Shard()
	total := 0
	for si, sc := range scripts {
		if si%n != k {
			continue
		}
		bound := smallBound
		if si >= nSmall {
			bound = bigBound
		}
		// a schedule = set of (step, switch-to-candidate-index) pre-emptions; default is
		// "keep running the last thread, else lowest id"
		var rec func(pre [][2]int, from int)
		runOne := func(pre [][2]int) (steps int, msg string) {
			at := map[int]int{}
			for _, p := range pre {
				at[p[0]] = p[1]
			}
			step := 0
			choose := func(cands []int, last int) int {
				step++
				def := 0
				for i, c := range cands {
					if c == last {
						def = i
					}
				}
				if alt, ok := at[step]; ok {
					// the alt-th candidate other than the default
					j := 0
					for i := range cands {
						if i == def {
							continue
						}
						if j == alt {
							return i
						}
						j++
					}
				}
				return def
			}
			msg = runScript(sc, choose, st, fmt.Sprintf("pre-emptions %v", pre))
			return step, msg
		}
		rec = func(pre [][2]int, from int) {
			steps, msg := runOne(pre)
			total++
			if msg != "" {
				t.Fatal(msg)
			}
			if len(pre) == bound {
				return
			}
			for s := from; s <= steps; s++ {
				for alt := 0; alt < len(sc)-1; alt++ {
					rec(append(append([][2]int(nil), pre...), [2]int{s, alt}), s+1)
				}
			}
		}
		rec(nil, 1)
	}
	st.Set("preemption_bound_small_scripts", smallBound)
	st.Set("preemption_bound_larger_scripts", bigBound)
	st.Set("schedules", total)
}

// Real goroutines: exactly-once, never invented, per-producer order, quiescent length.
func TestC13Stress(t *testing.T) {
	st := vstat.New("C13.stress")
	defer st.Flush()
	rapid.Check(t, func(t *rapid.T) {
		producers := rapid.IntRange(1, 8).Draw(t, "producers")
		consumers := rapid.IntRange(1, 8).Draw(t, "consumers")
		per := rapid.IntRange(1, 3000).Draw(t, "perProducer")
		q := queue.NewLockFreeQueue()
		type tag struct{ p, i int }
		tags := make([][]*queue.Task, producers)
		byTask := map[*queue.Task]tag{}
		for p := range tags {
			tags[p] = make([]*queue.Task, per)
			for i := range tags[p] {
				tags[p][i] = &queue.Task{}
				byTask[tags[p][i]] = tag{p, i}
			}
		}
		var wg sync.WaitGroup
		for p := 0; p < producers; p++ {
			wg.Add(1)
			go func(p int) {
				defer wg.Done()
				for _, tk := range tags[p] {
					q.Enqueue(tk)
				}
			}(p)
		}
		got := make([][]*queue.Task, consumers)
		done := make(chan struct{})
		var cw sync.WaitGroup
		for c := 0; c < consumers; c++ {
			cw.Add(1)
			go func(c int) {
				defer cw.Done()
				for {
					tk := q.Dequeue()
					if tk != nil {
						got[c] = append(got[c], tk)
						continue
					}
					select {
					case <-done:
						// producers are finished: drain what is left
						for tk := q.Dequeue(); tk != nil; tk = q.Dequeue() {
							got[c] = append(got[c], tk)
						}
						return
					default:
					}
				}
			}(c)
		}
		wg.Wait()
		close(done)
		cw.Wait()
		st.Eval()
		st.NonTrivial(vstat.Hash(producers, consumers, per))
		seen := map[*queue.Task]bool{}
		n := 0
		for c := range got {
			last := map[int]int{}
			for _, tk := range got[c] {
				tg, ok := byTask[tk]
				if !ok {
					t.Fatalf("VERIF-KEY:queue-invented consumer %d got a task nobody enqueued", c)
				}
				if seen[tk] {
					t.Fatalf("VERIF-KEY:queue-duplicate task %v was dequeued twice", tg)
				}
				seen[tk] = true
				if l, ok := last[tg.p]; ok && tg.i < l {
					t.Fatalf("VERIF-KEY:queue-order consumer %d saw producer %d's task %d after %d", c, tg.p, tg.i, l)
				}
				last[tg.p] = tg.i
				n++
			}
		}
		if n != producers*per {
			t.Fatalf("VERIF-KEY:queue-lost %d of %d tasks came out after the queue was drained", n, producers*per)
		}
		if q.Length() != 0 || !q.IsEmpty() {
			t.Fatalf("VERIF-KEY:queue-length drained queue reports Length() = %d, IsEmpty() = %v", q.Length(), q.IsEmpty())
		}
		if st.WantSample(true) {
			st.Sample(true, fmt.Sprintf("%d producers x %d tasks, %d consumers: all %d tasks dequeued exactly once, per-producer order kept", producers, per, consumers, n))
		}
	})
}
