// C06 — graceful shutdown is complete, bounded and final.
package c06

import (
	"bytes"
	"context"
	"errors"
	"fmt"
	"net"
	"os"
	"strings"
	"sync"
	"sync/atomic"
	"testing"
	"time"

	"pgregory.net/rapid"

	gnet "github.com/panjf2000/gnet/v2"
	errorx "github.com/panjf2000/gnet/v2/pkg/errors"
	"github.com/panjf2000/gnet/v2/verifx/fx"
	"github.com/panjf2000/gnet/v2/verifx/vstat"
)

const stallBound = 10 * time.Second

type caseSpec struct {
	Cfg               fx.Cfg
	Source            string // engine.Stop, pkg.Stop, OnOpen, OnTraffic, OnClose, OnTick, Wake, OnBoot, client.Stop
	Idle              int    // idle connections open at shutdown
	Streams           int    // connections whose peer keeps sending
	Pending           int    // connections with unsent outbound data (peer not reading)
	Dialers           int    // goroutines connecting continuously
	Asyncers          int    // goroutines issuing AsyncWrite/Wake continuously
	TickUs            int    // OnTick interval; TickBusyUs: time spent inside OnTick
	TickBusyUs        int
	DelayUs           int    // between activity start and the shutdown request
	UDPTarget         bool   // OnTraffic source: the Shutdown answer comes from the OnTraffic of a connected UDP socket
	WerrBy            string // OnClose+writeerr source: the call that fails - write, writev, flush
	WakeCallback      bool   // Wake source: the request carries a callback (that returns nil)
	Backlog           int    // async requests queued behind a busy loop right before the request (Wake/OnTick sources)
	CloseSaysShutdown bool   // every OnClose returns Shutdown (also those invoked by the shutdown sweep itself)
	ClosePartner      string // during the shutdown, an OnClose closes another open connection of its loop (EventLoop.Close), as a relay closes its partner: "", next (the one opened right after it), last
}

func (c caseSpec) String() string {
	return fmt.Sprintf("cfg: %s\n source=%s idle=%d streams=%d pending=%d dialers=%d asyncers=%d tick=%dus busy=%dus delay=%dus backlog=%d onCloseReturnsShutdown=%v onCloseClosesPartner=%v wakeWithCallback=%v failingWriteBy=%s answerFromUDPSocket=%v",
		c.Cfg, c.Source, c.Idle, c.Streams, c.Pending, c.Dialers, c.Asyncers, c.TickUs, c.TickBusyUs, c.DelayUs, c.Backlog, c.CloseSaysShutdown, c.ClosePartner, c.WakeCallback, c.WerrBy, c.UDPTarget)
}

type session struct {
	closeAnswers       int32 // OnClose calls that answered Shutdown because the case says so (a second, equally documented source)
	nesting            map[gnet.EventLoop]int
	cs                 caseSpec
	e                  *fx.Engine
	mu                 sync.Mutex
	conns              []*cstate
	trigger            int32 // 1: the next eligible callback returns Shutdown
	fired              int32
	returned           int32 // Run / Client.Stop has returned
	late               []string
	inTick             int32
	gate               chan struct{}
	werrParked, werrGo chan struct{} // source "OnClose+writeerr": the target parks in OnTraffic, then writes to a peer that has reset
	wakeTarget         *cstate
}

type cstate struct {
	s             *session
	id            int
	gc            gnet.Conn
	opens, closes int32
	role          string
	closedCh      chan struct{}
}

func (s *session) lateCheck(what string) {
	if atomic.LoadInt32(&s.returned) == 1 {
		s.mu.Lock()
		s.late = append(s.late, what)
		s.mu.Unlock()
	}
}

// nested tracks, per loop, whether a partner close is in progress; it reports the state
// before a +1 and always false for a -1.
func (s *session) nested(l gnet.EventLoop, d int) bool {
	s.mu.Lock()
	defer s.mu.Unlock()
	if s.nesting == nil {
		s.nesting = map[gnet.EventLoop]int{}
	}
	if d < 0 {
		s.nesting[l]--
		return false
	}
	if s.nesting[l] > 0 {
		return true
	}
	s.nesting[l]++
	return false
}

func (s *session) shouldFire(where string) bool {
	if s.cs.Source == where && atomic.CompareAndSwapInt32(&s.trigger, 1, 2) {
		atomic.StoreInt32(&s.fired, 1)
		return true
	}
	return false
}

func (c *cstate) OnOpen(gc gnet.Conn) ([]byte, gnet.Action) {
	c.s.lateCheck(fmt.Sprintf("OnOpen conn%d", c.id))
	atomic.AddInt32(&c.opens, 1)
	c.gc = gc
	var out []byte
	if c.role == "pending" {
		out = make([]byte, 4<<20) // far more than the socket takes: stays in the outbound buffer
	}
	if c.s.shouldFire("OnOpen") {
		return out, gnet.Shutdown
	}
	return out, gnet.None
}

func (c *cstate) OnTraffic(gc gnet.Conn) gnet.Action {
	c.s.lateCheck(fmt.Sprintf("OnTraffic conn%d", c.id))
	_, _ = gc.Discard(-1)
	if c.role == "werr" && c.s.werrGo != nil {
		c.role = "idle"
		c.s.werrParked <- struct{}{}
		<-c.s.werrGo
		// the peer has reset the connection meanwhile: a write fails, and the connection is closed from inside it
		junk := make([]byte, 64<<10)
		for i := 0; i < 200; i++ {
			var err error
			switch c.s.cs.WerrBy {
			case "writev":
				_, err = gc.Writev([][]byte{junk[:1000], junk[1000:]})
			case "flush":
				if _, err = gc.ReadFrom(bytes.NewReader(junk)); err == nil {
					err = gc.Flush()
				}
			default:
				_, err = gc.Write(junk)
			}
			if err != nil {
				break
			}
		}
		return gnet.None
	}
	if g := c.s.gate; g != nil && c.role == "gate" {
		<-g // keeps the loop busy while a backlog is queued
		c.role = "idle"
		return gnet.None
	}
	// "Wake": only the OnTraffic of the connection that was woken for it fires (it may sit behind a backlog)
	if c.s.shouldFire("OnTraffic") || (c.s.wakeTarget == c && c.s.shouldFire("Wake")) {
		return gnet.Shutdown
	}
	if c.s.shouldFire("OnTraffic+close") {
		_ = gc.EventLoop().Close(gc) // the handler closes its own connection and then asks for the shutdown
		return gnet.Shutdown
	}
	return gnet.None
}

func (c *cstate) OnClose(gc gnet.Conn, err error) gnet.Action {
	c.s.lateCheck(fmt.Sprintf("OnClose conn%d", c.id))
	atomic.AddInt32(&c.closes, 1)
	close(c.closedCh)
	if c.s.cs.ClosePartner != "" && atomic.LoadInt32(&c.s.trigger) >= 1 && !c.s.nested(gc.EventLoop(), +1) {
		// (an OnClose that runs because a partner closed this connection does not close a third one:
		// otherwise the first visit of a sweep would take the whole chain with it)
		defer c.s.nested(gc.EventLoop(), -1)
		c.s.mu.Lock()
		conns := append([]*cstate(nil), c.s.conns...)
		c.s.mu.Unlock()
		open := func(p *cstate) bool {
			return p != c && p.gc != nil && atomic.LoadInt32(&p.opens) == 1 && atomic.LoadInt32(&p.closes) == 0 && p.gc.EventLoop() == gc.EventLoop()
		}
		if c.s.cs.ClosePartner == "last" {
			for i := len(conns) - 1; i >= 0; i-- {
				if open(conns[i]) {
					_ = gc.EventLoop().Close(conns[i].gc)
					break
				}
			}
		} else {
			// the open connection of this loop that was opened right after this one: in a
			// sweep its slot lies just ahead of the cursor, with live connections behind it
			for i := c.id + 1; i < len(conns); i++ {
				if open(conns[i]) {
					_ = gc.EventLoop().Close(conns[i].gc)
					break
				}
			}
		}
	}
	if c.s.shouldFire("OnClose") || c.s.shouldFire("OnClose+writeerr") {
		return gnet.Shutdown
	}
	if c.s.cs.CloseSaysShutdown && atomic.LoadInt32(&c.s.trigger) >= 1 {
		atomic.AddInt32(&c.s.closeAnswers, 1)
		return gnet.Shutdown // once the shutdown has been requested, every OnClose asks for it again
	}
	return gnet.None
}

type unbound struct{ s *session }

func (u unbound) bind() *cstate {
	c := &cstate{s: u.s, role: "flood", closedCh: make(chan struct{})}
	u.s.mu.Lock()
	c.id = len(u.s.conns)
	u.s.conns = append(u.s.conns, c)
	u.s.mu.Unlock()
	return c
}

func run(cs caseSpec) (fails, stalls []string, infra string, nt bool) {
	s := &session{cs: cs}
	hooks := fx.EngineHooks{
		OnBoot: func(gnet.Engine) gnet.Action {
			if cs.Source == "OnBoot" {
				return gnet.Shutdown
			}
			return gnet.None
		},
		OnShutdown: func(gnet.Engine) { s.lateCheck("OnShutdown") },
		OnTick: func() (time.Duration, gnet.Action) {
			s.lateCheck("OnTick (entered)")
			atomic.StoreInt32(&s.inTick, 1)
			if cs.TickBusyUs > 0 {
				time.Sleep(time.Duration(cs.TickBusyUs) * time.Microsecond)
			}
			atomic.StoreInt32(&s.inTick, 0)
			s.lateCheck("OnTick (still running)")
			d := time.Duration(cs.TickUs) * time.Microsecond
			if s.shouldFire("OnTick") {
				return d, gnet.Shutdown
			}
			return d, gnet.None
		},
		Unbound: func(gnet.Conn) fx.ConnHooks { return unbound{s}.bind() },
	}
	e, err := fx.Start(cs.Cfg, hooks)
	if err != nil {
		infra = err.Error()
		return
	}
	s.e = e
	addF := func(f string, a ...any) { s.mu.Lock(); fails = append(fails, fmt.Sprintf(f, a...)); s.mu.Unlock() }

	if cs.Source == "OnBoot" {
		rerr, ok := e.WaitDone(stallBound)
		if !ok {
			stalls = append(stalls, fmt.Sprintf("VERIF-KEY:stop-onboot Run did not return within %v of a Shutdown action from OnBoot", stallBound))
			_ = e.Stop()
			return
		}
		atomic.StoreInt32(&s.returned, 1)
		if rerr != nil {
			addF("VERIF-KEY:stop-error Run returned %v after a Shutdown action from OnBoot", rerr)
		}
		time.Sleep(20 * time.Millisecond)
		if n := atomic.LoadInt32(&e.Ticks); n != 0 {
			addF("VERIF-KEY:stop-onboot OnTick ran %d times although OnBoot returned Shutdown", n)
		}
		if c, err := net.DialTimeout(cs.Cfg.Net, e.Addr, 300*time.Millisecond); err == nil {
			c.Close()
			addF("VERIF-KEY:stop-listening the listen address %s still accepts connections after Run returned (OnBoot Shutdown)", e.Addr)
		}
		nt = false
		return
	}

	// ---- open the connections ----
	var peers []net.Conn
	var peerMu sync.Mutex
	open := func(role string) *cstate {
		c := &cstate{s: s, role: role, closedCh: make(chan struct{})}
		s.mu.Lock()
		c.id = len(s.conns)
		s.conns = append(s.conns, c)
		s.mu.Unlock()
		p, _, err := e.Connect(c)
		if err != nil {
			if role == "opener" {
				return nil // the engine may already be shutting down (another connection's OnOpen fired first)
			}
			if strings.Contains(err.Error(), fx.ErrInfra.Error()) {
				infra = err.Error()
			} else {
				addF("VERIF-KEY:stop-connect %v", err)
			}
			return nil
		}
		peerMu.Lock()
		peers = append(peers, p)
		peerMu.Unlock()
		return c
	}
	var streamPeers []net.Conn
	var all []*cstate
	for i := 0; i < cs.Idle && infra == ""; i++ {
		if c := open("idle"); c != nil {
			all = append(all, c)
		}
	}
	for i := 0; i < cs.Streams && infra == ""; i++ {
		if c := open("stream"); c != nil {
			all = append(all, c)
			streamPeers = append(streamPeers, peers[len(peers)-1])
		}
	}
	for i := 0; i < cs.Pending && infra == ""; i++ {
		if c := open("pending"); c != nil {
			all = append(all, c)
		}
	}
	// a connected UDP socket of the client: its OnTraffic may be the one that answers Shutdown
	var udpPeer *net.UDPConn
	var udpState *cstate
	if cs.UDPTarget && infra == "" {
		if up, err := net.ListenUDP("udp4", &net.UDPAddr{IP: net.ParseIP(fx.Host("udp4"))}); err == nil {
			c := &cstate{s: s, role: "idle", closedCh: make(chan struct{})}
			s.mu.Lock()
			c.id = len(s.conns)
			s.conns = append(s.conns, c)
			s.mu.Unlock()
			var err error
			if cs.Cfg.Client {
				_, err = e.Client().DialContext("udp4", up.LocalAddr().String(), fx.ConnHooks(c))
			} else {
				// a server engine gets its connected UDP socket through Engine.Register with a UDP address
				var ch <-chan gnet.RegisteredResult
				if ch, err = e.Eng.Register(gnet.NewNetAddrContext(gnet.NewContext(context.Background(), fx.ConnHooks(c)), up.LocalAddr())); err == nil {
					select {
					case r := <-ch:
						err = r.Err
					case <-time.After(8 * time.Second):
						err = fmt.Errorf("no result within 8s")
					}
				}
			}
			if err == nil {
				udpPeer, udpState = up, c
				defer up.Close()
			} else {
				up.Close()
				addF("VERIF-KEY:stop-connect a connected UDP socket on a running engine: %v", err)
			}
		}
	}
	if infra != "" {
		_ = e.Stop()
		return
	}
	nt = cs.Streams > 0 || cs.Pending > 0 || cs.Dialers > 0

	// ---- background activity ----
	var stop, stopDial int32
	var wg sync.WaitGroup
	for _, p := range streamPeers {
		wg.Add(1)
		go func(p net.Conn) {
			defer wg.Done()
			buf := make([]byte, 8192)
			for atomic.LoadInt32(&stop) == 0 {
				_ = p.SetWriteDeadline(time.Now().Add(200 * time.Millisecond))
				if _, err := p.Write(buf); err != nil {
					return
				}
			}
		}(p)
	}
	if !cs.Cfg.Client {
		for i := 0; i < cs.Dialers; i++ {
			wg.Add(1)
			go func() {
				defer wg.Done()
				var mine []net.Conn
				for atomic.LoadInt32(&stop) == 0 && atomic.LoadInt32(&stopDial) == 0 {
					c, err := net.DialTimeout(cs.Cfg.Net, e.Addr, 200*time.Millisecond)
					if err != nil {
						time.Sleep(200 * time.Microsecond)
						continue
					}
					mine = append(mine, c)
					if len(mine) > 30 {
						mine[0].Close()
						mine = mine[1:]
					}
				}
				for _, c := range mine {
					c.Close()
				}
			}()
		}
	}
	for i := 0; i < cs.Asyncers && len(all) > 0; i++ {
		wg.Add(1)
		go func(i int) {
			defer wg.Done()
			for k := 0; atomic.LoadInt32(&stop) == 0; k++ {
				c := all[(i+k)%len(all)]
				if c.gc == nil || (c == all[0] && cs.Source == "Wake") {
					time.Sleep(20 * time.Microsecond)
					continue
				}
				if k%3 == 0 {
					_ = c.gc.Wake(nil)
				} else {
					_ = c.gc.AsyncWrite([]byte("x"), nil)
				}
				time.Sleep(50 * time.Microsecond)
			}
		}(i)
	}
	time.Sleep(time.Duration(cs.DelayUs) * time.Microsecond)

	// ---- optional backlog behind a busy loop (the request then sits in the low-priority queue) ----
	var target *cstate
	if len(all) > 0 {
		target = all[0]
	}
	if cs.Backlog > 0 && target != nil && target.gc != nil {
		s.gate = make(chan struct{})
		target.role = "gate"
		_ = target.gc.Wake(nil) // the loop parks inside OnTraffic
		time.Sleep(2 * time.Millisecond)
		for i := 0; i < cs.Backlog; i++ {
			_ = target.gc.AsyncWrite([]byte("b"), nil)
		}
	}

	// ---- the shutdown request ----
	atomic.StoreInt32(&s.trigger, 1)
	var stopErr error
	stopRet := make(chan struct{})
	switch cs.Source {
	case "engine.Stop":
		go func() { stopErr = e.Eng.Stop(context.Background()); close(stopRet) }()
	case "pkg.Stop":
		go func() {
			// the engine registers itself under its address only after its loops are started;
			// before that the package-level Stop reports an error and requests nothing
			for i := 0; i < 2000; i++ {
				if stopErr = gnet.Stop(context.Background(), e.ProtoAddr); stopErr == nil {
					break
				}
				time.Sleep(time.Millisecond)
			}
			close(stopRet)
		}()
	case "client.Stop":
		// handled below (Client.Stop blocks)
		close(stopRet)
	case "OnOpen":
		go func() { open("opener"); close(stopRet) }()
	case "OnTraffic", "OnTraffic+close":
		if udpState != nil && udpState.gc != nil && cs.Source == "OnTraffic" {
			// the datagram socket's OnTraffic answers
			if la, err := net.ResolveUDPAddr("udp4", udpState.gc.LocalAddr().String()); err == nil {
				_, _ = udpPeer.WriteToUDP([]byte{1}, la)
			}
		} else if target != nil {
			peerMu.Lock()
			_, _ = peers[0].Write([]byte{1})
			peerMu.Unlock()
		}
		close(stopRet)
	case "Wake":
		if target != nil && target.gc != nil {
			s.wakeTarget = target
			if cs.WakeCallback {
				// what the callback returns says nothing about the Shutdown the woken OnTraffic answers
				_ = target.gc.Wake(func(gnet.Conn, error) error { return nil })
			} else {
				_ = target.gc.Wake(nil)
			}
		}
		close(stopRet)
	case "OnClose":
		if target != nil {
			peerMu.Lock()
			peers[0].Close()
			peerMu.Unlock()
		}
		close(stopRet)
	case "OnClose+writeerr":
		if target != nil && cs.Backlog == 0 {
			s.werrParked, s.werrGo = make(chan struct{}, 1), make(chan struct{})
			target.role = "werr"
			peerMu.Lock()
			_, _ = peers[0].Write([]byte{1})
			peerMu.Unlock()
			select {
			case <-s.werrParked:
				peerMu.Lock()
				if tc, ok := peers[0].(*net.TCPConn); ok {
					_ = tc.SetLinger(0) // reset instead of an orderly close
				}
				peers[0].Close()
				peerMu.Unlock()
				time.Sleep(time.Millisecond)
			case <-time.After(2 * time.Second):
			}
			close(s.werrGo)
		} else if target != nil {
			peerMu.Lock()
			peers[0].Close()
			peerMu.Unlock()
		}
		close(stopRet)
	case "OnTick":
		close(stopRet)
	}
	if s.gate != nil {
		close(s.gate)
	}
	// connects are in flight when the request is made and for a little while after it; an endless
	// flood that outpaces the acceptor is outside the statement (the acceptor drains its queue before
	// it looks at requests)
	go func() { time.Sleep(3 * time.Millisecond); atomic.StoreInt32(&stopDial, 1) }()

	// ---- Run / Client.Stop returns ----
	var rerr error
	var ok bool
	if cs.Cfg.Client {
		errc := make(chan error, 1)
		if cs.Source == "client.Stop" {
			go func() { errc <- e.Client().Stop() }()
		} else {
			// a Shutdown action on the client side ends the loops; Stop then completes the shutdown
			go func() {
				dl := time.Now().Add(stallBound)
				for atomic.LoadInt32(&s.fired) == 0 && time.Now().Before(dl) {
					time.Sleep(100 * time.Microsecond)
				}
				errc <- e.Client().Stop()
			}()
		}
		select {
		case rerr = <-errc:
			ok = true
		case <-time.After(stallBound + 2*time.Second):
		}
	} else {
		rerr, ok = e.WaitDone(stallBound)
	}
	atomic.StoreInt32(&s.returned, 1)
	atomic.StoreInt32(&stop, 1)
	if !ok {
		stalls = append(stalls, fmt.Sprintf("VERIF-KEY:stop-hang Run/Client.Stop did not return within %v of the shutdown request (%s; request fired: %v)\nframework goroutines:\n%s", stallBound, cs.Source, atomic.LoadInt32(&s.fired) == 1 || strings.Contains(cs.Source, "Stop"), fx.GnetStacks()))
		go func() { _ = e.Stop() }()
		peerMu.Lock()
		for _, p := range peers {
			p.Close()
		}
		peerMu.Unlock()
		wg.Wait()
		return
	}
	if rerr != nil {
		addF("VERIF-KEY:stop-error Run/Client.Stop returned %v", rerr)
	}
	// everything opened has been closed by now
	s.mu.Lock()
	conns := append([]*cstate(nil), s.conns...)
	s.mu.Unlock()
	for _, c := range conns {
		o, cl := atomic.LoadInt32(&c.opens), atomic.LoadInt32(&c.closes)
		if o > 1 || cl > o || (o == 1 && cl != 1) {
			addF("VERIF-KEY:stop-unclosed conn%d (%s): %d OnOpen, %d OnClose when Run/Client.Stop returned", c.id, c.role, o, cl)
			break
		}
	}
	if n := atomic.LoadInt32(&e.Shutdowns); n != 1 {
		addF("VERIF-KEY:stop-onshutdown OnShutdown was invoked %d times", n)
	}
	// finality: no callback after the return
	select {
	case <-stopRet:
	case <-time.After(2 * time.Second):
	}
	if cs.Source == "engine.Stop" || cs.Source == "pkg.Stop" {
		if stopErr != nil {
			// an OnClose that answers Shutdown is a source of its own: when it wins the race the engine
			// may be down before Stop is called, and Stop then rightly reports the in-shutdown error
			if errors.Is(stopErr, errorx.ErrEngineInShutdown) && atomic.LoadInt32(&s.closeAnswers) > 0 {
				stopErr = nil
			} else {
				addF("VERIF-KEY:stop-error %s returned %v", cs.Source, stopErr)
			}
		}
	}
	time.Sleep(time.Duration(cs.TickBusyUs)*time.Microsecond + 15*time.Millisecond)
	if !cs.Cfg.Client {
		if c, err := net.DialTimeout(cs.Cfg.Net, e.Addr, 300*time.Millisecond); err == nil {
			c.Close()
			addF("VERIF-KEY:stop-listening the listen address %s still accepts connections after Run returned", e.Addr)
		}
	}
	peerMu.Lock()
	for _, p := range peers {
		p.Close()
	}
	peerMu.Unlock()
	wg.Wait()
	time.Sleep(2 * time.Millisecond)
	s.mu.Lock()
	if len(s.late) > 0 {
		fails = append(fails, fmt.Sprintf("VERIF-KEY:stop-late-callback callbacks ran after Run/Client.Stop had returned: %s", strings.Join(s.late[:min(len(s.late), 5)], ", ")))
	}
	s.mu.Unlock()
	for _, p := range e.Logger.Panics() {
		addF("VERIF-KEY:panic-logged %s", p)
	}
	// accepted sockets that leak at shutdown (known finding of C07) must not pile up in this process
	hygiene += int64(e.CloseAcceptedLeaks())
	return
}

var hygiene int64

func min(a, b int) int {
	if a < b {
		return a
	}
	return b
}

func drawCase(t *rapid.T) caseSpec {
	var cs caseSpec
	cs.Cfg = fx.DrawCfg(t, fx.DrawOpt{})
	cs.Cfg.RcvBuf = 0
	if !cs.Cfg.Client && rapid.IntRange(0, 3).Draw(t, "rotate") == 0 {
		cs.Cfg.Listeners = rapid.IntRange(2, 3).Draw(t, "listeners")
	}
	srcs := []string{"engine.Stop", "engine.Stop", "pkg.Stop", "OnOpen", "OnTraffic", "OnTraffic+close", "OnClose", "OnClose+writeerr", "OnTick", "Wake", "OnBoot"}
	if cs.Cfg.Client {
		srcs = []string{"client.Stop", "client.Stop", "OnTraffic", "OnTraffic", "OnTraffic+close", "OnClose", "Wake", "OnTick"}
	}
	cs.Source = rapid.SampledFrom(srcs).Draw(t, "source")
	if cs.Source == "OnTick" {
		cs.Cfg.Ticker = true
	}
	big := rapid.IntRange(0, 9).Draw(t, "many") == 0
	maxIdle := 8
	if big {
		maxIdle = 60
		if vstat.Thorough() {
			maxIdle = 200
		}
	}
	cs.Idle = rapid.IntRange(0, maxIdle).Draw(t, "idle")
	cs.Streams = rapid.IntRange(0, 3).Draw(t, "streams")
	cs.Pending = rapid.IntRange(0, 2).Draw(t, "pending")
	cs.CloseSaysShutdown = rapid.IntRange(0, 3).Draw(t, "closeSaysShutdown") == 0
	cs.ClosePartner = rapid.SampledFrom([]string{"", "", "", "", "next", "next", "last"}).Draw(t, "closePartner")
	if cs.Source == "OnTraffic" || cs.Source == "OnTraffic+close" || cs.Source == "OnClose" || cs.Source == "OnClose+writeerr" || cs.Source == "Wake" {
		if cs.Idle == 0 {
			cs.Idle = 1
		}
	}
	cs.Dialers = rapid.SampledFrom([]int{0, 0, 1, 4}).Draw(t, "dialers")
	cs.Asyncers = rapid.SampledFrom([]int{0, 0, 1, 3}).Draw(t, "asyncers")
	cs.TickUs = rapid.SampledFrom([]int{200, 1000, 10000}).Draw(t, "tickUs")
	cs.TickBusyUs = rapid.SampledFrom([]int{0, 0, 300, 3000}).Draw(t, "tickBusyUs")
	cs.DelayUs = rapid.SampledFrom([]int{0, 100, 1000, 5000}).Draw(t, "delayUs")
	if cs.Source == "Wake" {
		cs.WakeCallback = rapid.Bool().Draw(t, "wakeCallback")
	}
	if cs.Source == "OnTraffic" {
		cs.UDPTarget = rapid.IntRange(0, 2).Draw(t, "udpTarget") == 0
		if cs.UDPTarget {
			cs.Streams, cs.Asyncers = 0, 0 // no other OnTraffic may answer first
			if cs.Cfg.LB == gnet.RoundRobin {
				cs.Cfg.LB = gnet.LeastConnections // Engine.Register is not for Round-Robin engines
			}
		}
	}
	if cs.Source == "OnClose+writeerr" {
		cs.WerrBy = rapid.SampledFrom([]string{"write", "writev", "writev", "flush"}).Draw(t, "failingWriteBy")
	}
	if (cs.Source == "Wake" || cs.Source == "OnTick") && rapid.IntRange(0, 2).Draw(t, "backlog") == 0 {
		cs.Backlog = rapid.SampledFrom([]int{100, 1023, 1024, 1100, 1500}).Draw(t, "backlogN")
		if cs.Idle == 0 {
			cs.Idle = 1
		}
	}
	if f := os.Getenv("C06_FORCE"); f != "" { // development aid: "Wake:1100"
		parts := strings.SplitN(f, ":", 2)
		cs.Source = parts[0]
		fmt.Sscan(parts[1], &cs.Backlog)
		if cs.Idle == 0 {
			cs.Idle = 1
		}
		if cs.Source == "OnTick" {
			cs.Cfg.Ticker = true
		}
	}
	return cs
}

func TestC06Shutdown(t *testing.T) {
	st := vstat.New("C06.shutdown")
	defer st.Flush()
	rapid.Check(t, func(t *rapid.T) {
		cs := drawCase(t)
		fails, stalls, infra, nt := run(cs)
		if infra != "" {
			t.Fatalf("VERIF-INFRA %s\n%s", infra, cs)
		}
		if len(stalls) > 0 && len(fails) == 0 {
			st.Label("stall_candidate")
			f2, s2, i2, _ := run(cs)
			if i2 == "" && len(f2) == 0 && len(s2) == 0 {
				st.Label("stall_not_confirmed")
			} else {
				fails = append(append(fails, stalls...), f2...)
			}
		} else {
			fails = append(fails, stalls...)
		}
		st.Eval()
		if nt {
			st.NonTrivial(vstat.Hash(cs.String()))
			st.Label("shutdown_with_unread_unsent_or_connecting")
		}
		st.Label("source_" + cs.Source)
		if cs.UDPTarget {
			st.Label("answer_from_a_connected_udp_socket")
		}
		if hygiene > 0 {
			st.LabelN("accepted_sockets_closed_by_harness_hygiene", hygiene)
			hygiene = 0
		}
		if cs.Backlog >= 1024 {
			st.Label("request_behind_backlog_ge_1024")
		}
		if cs.Cfg.Listeners > 1 {
			st.Label("rotate_multi_listener")
		}
		if st.WantSample(nt) {
			st.Sample(nt, cs.String())
		}
		if len(fails) > 0 {
			t.Fatalf("%s\ncase:\n%s", strings.Join(fails, "\n"), cs)
		}
	})
}

func TestMain(m *testing.M) {
	code := m.Run()
	fx.Cleanup()
	os.Exit(code)
}
