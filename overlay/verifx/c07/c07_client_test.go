package c07

// Fifth generator: a Client whose Dial / Enroll calls race Client.Stop. Every duplicated
// descriptor the client created for an enrolled connection is closed exactly once - by the
// loop, or by the call that gives up - whichever side of the race wins: the descriptor table
// returns to its state and no close(2) of the framework hits a number that is not open.

import (
	"strings"
	"testing"

	"pgregory.net/rapid"

	"github.com/panjf2000/gnet/v2/verifx/clix"
	"github.com/panjf2000/gnet/v2/verifx/vstat"
)

func TestC07ClientStop(t *testing.T) {
	st := vstat.New("C07.client_stop")
	defer st.Flush()
	rapid.Check(t, func(t *rapid.T) {
		var cs clix.Case
		cs.Loops = rapid.IntRange(1, 3).Draw(t, "loops")
		cs.ET = rapid.Bool().Draw(t, "et")
		kind := rapid.SampledFrom(clix.Kinds)
		cs.Before = rapid.SliceOfN(kind, 0, 8).Draw(t, "running")
		ng := rapid.IntRange(1, 4).Draw(t, "racers")
		for i := 0; i < ng; i++ {
			cs.Racing = append(cs.Racing, rapid.SliceOfN(kind, 1, 4).Draw(t, "racing"))
		}
		cs.StopGap = rapid.SampledFrom([]int{0, 0, 50, 300, 1500}).Draw(t, "stopGapUs")
		cs.After = rapid.SliceOfN(kind, 0, 2).Draw(t, "after")
		if ng > 0 && rapid.IntRange(0, 2).Draw(t, "busyLoop") == 0 {
			cs.BusyMs = rapid.SampledFrom([]int{100, 700, 1200}).Draw(t, "busyMs") // 500 ms is the interval at which waiting callers look at the engine's state
		}
		fails, infra, okN, errN := clix.Run(cs, true)
		if infra != "" {
			t.Fatalf("VERIF-INFRA %s\n%s", infra, cs)
		}
		for _, f := range fails {
			if strings.Contains(f, "VERIF-INFRA") {
				t.Fatalf("%s\n%s", f, cs)
			}
		}
		st.Eval()
		nt := errN > 0
		if nt {
			st.NonTrivial(vstat.Hash(cs.String()))
			st.Label("registrations_given_up_because_of_the_stop")
		}
		if okN > 0 && errN > 0 {
			st.Label("calls_racing_stop_some_served_some_refused")
		}
		if st.WantSample(nt) {
			st.Sample(nt, cs.String())
		}
		if len(fails) > 0 {
			t.Fatalf("%s\ncase: %s", strings.Join(fails, "\n"), cs)
		}
	})
}
