// C07 — descriptor ownership: no leak, no double close, no I/O on a closed descriptor.
package c07

import (
	"context"
	"fmt"
	"net"
	"os"
	"sort"
	"strconv"
	"strings"
	"sync"
	"sync/atomic"
	"testing"
	"time"

	"golang.org/x/sys/unix"
	"pgregory.net/rapid"

	gnet "github.com/panjf2000/gnet/v2"
	"github.com/panjf2000/gnet/v2/verifx/fx"
	"github.com/panjf2000/gnet/v2/verifx/lifex"
	"github.com/panjf2000/gnet/v2/verifx/vstat"
)

// fdTable maps every open descriptor of the process to what it refers to.
func fdTable() map[int]string {
	out := map[int]string{}
	ents, err := os.ReadDir("/proc/self/fd")
	if err != nil {
		return out
	}
	for _, e := range ents {
		n, err := strconv.Atoi(e.Name())
		if err != nil {
			continue
		}
		if l, err := os.Readlink("/proc/self/fd/" + e.Name()); err == nil {
			out[n] = l
		}
	}
	return out
}

func interesting(target string) bool {
	return strings.HasPrefix(target, "socket:") || strings.Contains(target, "eventpoll") || strings.Contains(target, "eventfd")
}

// leaked returns descriptors open now that were not open before (sockets, epoll, eventfd).
func leaked(before map[int]string) []string {
	var out []string
	deadline := time.Now().Add(2 * time.Second)
	for {
		out = out[:0]
		now := fdTable()
		for fd, target := range now {
			if !interesting(target) {
				continue
			}
			if before[fd] != target {
				out = append(out, fmt.Sprintf("%d -> %s", fd, target))
			}
		}
		if len(out) == 0 || time.Now().After(deadline) {
			sort.Strings(out)
			return out
		}
		time.Sleep(5 * time.Millisecond) // the Go runtime closes the harness's own sockets asynchronously
	}
}

var warm sync.Once

func warmUp() {
	warm.Do(func() {
		// first use of the network poller, the logger, the pools ... opens descriptors that stay
		s := lifex.Run(lifex.Case{Cfg: fx.Cfg{Net: "tcp4", Loops: 2, ReadCap: 1024, WriteCap: 1024}, Wave1: []lifex.ConnSpec{{}}, Wave2: 1}, lifex.Hooks{})
		_ = s
		c, err := gnet.NewClient(&gnet.BuiltinEventEngine{})
		if err == nil {
			_ = c.Start()
			_ = c.Stop()
		}
		l, err := net.Listen("unix", fx.TmpDir()+"/warm.sock")
		if err == nil {
			l.Close()
		}
		time.Sleep(20 * time.Millisecond)
	})
}

func TestC07Histories(t *testing.T) {
	st := vstat.New("C07.histories")
	defer st.Flush()
	warmUp()
	rapid.Check(t, func(t *rapid.T) {
		cs := lifex.DrawCase(t, fx.DrawOpt{})
		dupListener := !cs.Cfg.Client && rapid.Bool().Draw(t, "dupListener")
		run := func() (*lifex.Session, []string) {
			before := fdTable()
			hooks := lifex.Hooks{Canaries: true}
			hooks.BeforeStop = func(s *lifex.Session) {
				if dupListener {
					d, err := s.E.Eng.Dup()
					if err != nil {
						s.Fails = append(s.Fails, fmt.Sprintf("VERIF-KEY:fd-dup Engine.Dup failed on a running engine: %v", err))
						return
					}
					var stt unix.Stat_t
					_ = unix.Fstat(d, &stt)
					s.UserFds = append(s.UserFds, lifex.UserFd{Fd: d, Ino: stt.Ino, What: "Engine.Dup"})
				}
			}
			s := lifex.Run(cs, hooks)
			if s.Infra != "" {
				return s, nil
			}
			fails := append([]string(nil), s.Fails...)
			if l := leaked(before); len(l) > 0 {
				fails = append(fails, fmt.Sprintf("VERIF-KEY:fd-leak after Run/Client.Stop returned and the harness closed its own ends, descriptors are still open that were not open before: %s", strings.Join(l, ", ")))
			}
			if cs.Cfg.Net == "unix" && !cs.Cfg.Client {
				if _, err := os.Stat(s.E.Addr); err == nil {
					fails = append(fails, fmt.Sprintf("VERIF-KEY:fd-sockfile the Unix socket file %s still exists after Run returned", s.E.Addr))
				}
			}
			return s, fails
		}
		s, fails := run()
		if s.Infra != "" {
			t.Fatalf("VERIF-INFRA %s\n%s", s.Infra, cs)
		}
		if len(s.Stalls) > 0 && len(fails) == 0 {
			s2, fails2 := run()
			if !(s2.Infra == "" && len(s2.Stalls) == 0 && len(fails2) == 0) {
				fails = append(append(fails, s.Stalls...), fails2...)
			} else {
				st.Label("stall_not_confirmed")
			}
		} else {
			fails = append(fails, s.Stalls...)
		}
		st.Eval()
		nt := false
		for _, c := range s.Conns {
			if c.InsideClose || c.MultiCause {
				nt = true
			}
		}
		if nt {
			st.NonTrivial(vstat.Hash(cs.String()))
			st.Label("session_with_inside_or_racing_close")
		}
		st.LabelN("dup_sockets_checked_not_polled_after_close", int64(s.PolledChecks))
		st.LabelN("handles_poked_after_the_engine_stopped", int64(s.AfterStopPokes))
		st.LabelN("canaries_placed", int64(len(s.Canaries)))
		st.LabelN("canaries_on_just_released_number", int64(s.CanaryHits))
		if dupListener {
			st.Label("listener_dup")
		}
		if st.WantSample(nt) {
			st.Sample(nt, cs.String())
		}
		if len(fails) > 0 {
			t.Fatalf("%s\ncase:\n%s", strings.Join(fails, "\n"), cs)
		}
	})
}

// Shutdown while connections are being accepted: every accepted socket must be
// closed by the time Run returns.
type floodConn struct{ opens, closes *int64 }

func (f floodConn) OnOpen(gnet.Conn) ([]byte, gnet.Action) {
	atomic.AddInt64(f.opens, 1)
	return nil, gnet.None
}
func (floodConn) OnTraffic(c gnet.Conn) gnet.Action { _, _ = c.Discard(-1); return gnet.None }
func (f floodConn) OnClose(gnet.Conn, error) gnet.Action {
	atomic.AddInt64(f.closes, 1)
	return gnet.None
}

func TestC07ShutdownUnderConnects(t *testing.T) {
	st := vstat.New("C07.shutdown_under_connects")
	defer st.Flush()
	warmUp()
	rapid.Check(t, func(t *rapid.T) {
		cfg := fx.DrawCfg(t, fx.DrawOpt{ServerOnly: true})
		dialers := rapid.IntRange(1, 8).Draw(t, "dialers")
		delayUs := rapid.SampledFrom([]int{0, 100, 500, 2000, 8000}).Draw(t, "stopAfterUs")
		before := fdTable()
		var opens, closes int64
		e, err := fx.Start(cfg, fx.EngineHooks{Unbound: func(gnet.Conn) fx.ConnHooks { return floodConn{&opens, &closes} }})
		if err != nil {
			t.Fatalf("VERIF-INFRA %v", err)
		}
		var stop int32
		var wg sync.WaitGroup
		var dialed int64
		netw := cfg.Net
		for i := 0; i < dialers; i++ {
			wg.Add(1)
			go func() {
				defer wg.Done()
				var open []net.Conn
				for atomic.LoadInt32(&stop) == 0 {
					c, err := net.DialTimeout(netw, e.Addr, time.Second)
					if err != nil {
						time.Sleep(100 * time.Microsecond)
						continue
					}
					atomic.AddInt64(&dialed, 1)
					open = append(open, c)
					if len(open) > 20 {
						open[0].Close()
						open = open[1:]
					}
				}
				for _, c := range open {
					c.Close()
				}
			}()
		}
		time.Sleep(time.Duration(delayUs) * time.Microsecond)
		serr := e.Stop()
		atomic.StoreInt32(&stop, 1)
		wg.Wait()
		st.Eval()
		st.NonTrivial(vstat.Hash(cfg.String(), dialers, delayUs))
		if st.WantSample(true) {
			st.Sample(true, fmt.Sprintf("%s: %d dialers, Stop after %dus, %d connects", cfg, dialers, delayUs, atomic.LoadInt64(&dialed)))
		}
		if serr != nil {
			t.Fatalf("VERIF-KEY:fd-stop %v", serr)
		}
		if l := leaked(before); len(l) > 0 {
			// classify: connected stream sockets that the acceptor took but that never reached OnOpen
			onlyAccepted := !cfg.ReusePort && atomic.LoadInt64(&opens) == atomic.LoadInt64(&closes)
			for _, ent := range l {
				fd, _ := strconv.Atoi(strings.Fields(ent)[0])
				if v, err := unix.GetsockoptInt(fd, unix.SOL_SOCKET, unix.SO_ACCEPTCONN); err != nil || v != 0 {
					onlyAccepted = false // a listening socket or not a socket at all
				}
				if _, err := unix.Getpeername(fd); err != nil {
					onlyAccepted = false
				}
				if !strings.Contains(ent, "socket:") {
					onlyAccepted = false
				}
			}
			e.CloseAcceptedLeaks() // do not let the leak pile up in the test process
			const key = "fd-leak-accept-at-shutdown"
			msg := fmt.Sprintf("after Run returned (shutdown requested while %d dialers were connecting; %d OnOpen = %d OnClose) %d descriptors are still open: %s", dialers, atomic.LoadInt64(&opens), atomic.LoadInt64(&closes), len(l), strings.Join(l, ", "))
			switch {
			case onlyAccepted && vstat.Known(key):
				st.KnownFinding(key, msg)
			case onlyAccepted:
				t.Fatalf("VERIF-KEY:%s %s\ncfg: %s", key, msg, cfg)
			default:
				t.Fatalf("VERIF-KEY:fd-leak %s\ncfg: %s", msg, cfg)
			}
		}
	})
}

// Registrations racing the shutdown: a connection handed to Engine.Register /
// EventLoop.Enroll is duplicated by the framework before the owning loop is asked to
// register it; whatever the loop does with the request, the duplicate must be closed
// by the time Run has returned and every accepted call must still deliver its result.
func TestC07RegisterAtShutdown(t *testing.T) {
	st := vstat.New("C07.register_at_shutdown")
	defer st.Flush()
	warmUp()
	rapid.Check(t, func(t *rapid.T) {
		cfg := fx.DrawCfg(t, fx.DrawOpt{ServerOnly: true, NoUnix: true})
		if cfg.LB == gnet.RoundRobin {
			cfg.LB = gnet.LeastConnections // Engine.Register with Round-Robin is a documented data race
		}
		workers := rapid.IntRange(1, 6).Draw(t, "workers")
		delayUs := rapid.SampledFrom([]int{0, 100, 500, 2000, 8000}).Draw(t, "stopAfterUs")
		kind := rapid.SampledFrom([]string{"register", "enroll", "both"}).Draw(t, "kind")
		before := fdTable()
		tl, err := net.Listen("tcp4", fx.Host("tcp4")+":0")
		if err != nil {
			t.Fatalf("VERIF-INFRA %v", err)
		}
		var amu sync.Mutex
		var accepted []net.Conn
		acceptDone := make(chan struct{})
		go func() {
			defer close(acceptDone)
			for {
				c, err := tl.Accept()
				if err != nil {
					return
				}
				amu.Lock()
				accepted = append(accepted, c)
				amu.Unlock()
			}
		}()
		var opens, closes int64
		e, err := fx.Start(cfg, fx.EngineHooks{Unbound: func(gnet.Conn) fx.ConnHooks { return floodConn{&opens, &closes} }})
		if err != nil {
			tl.Close()
			t.Fatalf("VERIF-INFRA %v", err)
		}
		first := &firstConn{floodConn: floodConn{&opens, &closes}}
		peer, _, err := e.Connect(first)
		if err != nil {
			_ = e.Stop()
			tl.Close()
			t.Fatalf("VERIF-INFRA %v", err)
		}
		loop := first.gc.EventLoop()
		type call struct {
			what string
			ch   <-chan gnet.RegisteredResult
		}
		var cmu sync.Mutex
		var calls []call
		var mine []net.Conn
		var stop int32
		var wg sync.WaitGroup
		for w := 0; w < workers; w++ {
			wg.Add(1)
			go func(w int) {
				defer wg.Done()
				for i := 0; atomic.LoadInt32(&stop) == 0 && i < 400; i++ {
					ctx := gnet.NewContext(context.Background(), fx.ConnHooks(floodConn{&opens, &closes}))
					if kind == "register" || (kind == "both" && (w+i)%2 == 0) {
						ch, err := e.Eng.Register(gnet.NewNetAddrContext(ctx, tl.Addr()))
						if err == nil {
							cmu.Lock()
							calls = append(calls, call{"Engine.Register", ch})
							cmu.Unlock()
						}
					} else {
						nc, derr := net.Dial("tcp4", tl.Addr().String())
						if derr != nil {
							continue
						}
						cmu.Lock()
						mine = append(mine, nc) // Enroll works on a duplicate: the caller's connection stays the caller's
						cmu.Unlock()
						ch, err := loop.Enroll(ctx, nc)
						if err == nil {
							cmu.Lock()
							calls = append(calls, call{"EventLoop.Enroll", ch})
							cmu.Unlock()
						}
					}
				}
			}(w)
		}
		time.Sleep(time.Duration(delayUs) * time.Microsecond)
		serr := e.Stop()
		atomic.StoreInt32(&stop, 1)
		wg.Wait()
		peer.Close()
		st.Eval()
		st.NonTrivial(vstat.Hash(cfg.String(), workers, delayUs, kind))
		st.LabelN("registrations_accepted", int64(len(calls)))
		if st.WantSample(true) {
			st.Sample(true, fmt.Sprintf("%s: %d workers (%s), Stop after %dus, %d registrations accepted", cfg, workers, kind, delayUs, len(calls)))
		}
		if serr != nil {
			t.Fatalf("VERIF-KEY:fd-stop %v", serr)
		}
		// every accepted call delivers exactly one result
		lost, surplus := 0, 0
		deadline := time.Now().Add(4 * time.Second)
		for _, c := range calls {
			n := 0
		drain:
			for {
				select {
				case _, ok := <-c.ch:
					if !ok {
						break drain
					}
					n++
				case <-time.After(time.Until(deadline)):
					break drain
				}
			}
			if n == 0 {
				lost++
			} else if n > 1 {
				surplus++
			}
		}
		for _, c := range mine {
			c.Close()
		}
		tl.Close()
		<-acceptDone // no connection is accepted behind the sweep below
		amu.Lock()
		for _, c := range accepted {
			c.Close()
		}
		amu.Unlock()
		l := leaked(before)
		if surplus > 0 {
			t.Fatalf("VERIF-KEY:fd-register-results %d registrations delivered more than one result\ncfg: %s", surplus, cfg)
		}
		if lost > 0 || len(l) > 0 {
			var what []string
			for _, ent := range head(l, 6) {
				fd, _ := strconv.Atoi(strings.Fields(ent)[0])
				la, _ := unix.Getsockname(fd)
				ra, _ := unix.Getpeername(fd)
				what = append(what, fmt.Sprintf("fd %d: local %s peer %s", fd, saString(la), saString(ra)))
			}
			t.Fatalf("VERIF-KEY:fd-leak-register-at-shutdown %d of %d registrations accepted around the shutdown never delivered a result (4s after Run returned); descriptors still open that were not open before: %d %v (%s; the registrations' target listens on %s, the engine on %s)\ncfg: %s workers=%d kind=%s stopAfter=%dus", lost, len(calls), len(l), head(l, 6), strings.Join(what, "; "), tl.Addr(), e.Addr, cfg, workers, kind, delayUs)
		}
	})
}

type firstConn struct {
	floodConn
	gc gnet.Conn
}

func (f *firstConn) OnOpen(c gnet.Conn) ([]byte, gnet.Action) {
	f.gc = c
	return f.floodConn.OnOpen(c)
}

func saString(sa unix.Sockaddr) string {
	switch a := sa.(type) {
	case *unix.SockaddrInet4:
		return fmt.Sprintf("%v:%d", net.IP(a.Addr[:]), a.Port)
	case *unix.SockaddrInet6:
		return fmt.Sprintf("[%v]:%d", net.IP(a.Addr[:]), a.Port)
	case *unix.SockaddrUnix:
		return "unix:" + a.Name
	}
	return "-"
}

func head(s []string, n int) []string {
	if len(s) > n {
		return s[:n]
	}
	return s
}

// Failed starts: Run/Rotate on an address that cannot be bound, or on a list whose
// later address is unusable, returns an error - with every descriptor it created on
// the way closed and no Unix socket file of its own left behind.
type bootCatcher struct {
	gnet.BuiltinEventEngine
	eng chan gnet.Engine
}

func (b *bootCatcher) OnBoot(e gnet.Engine) gnet.Action {
	select {
	case b.eng <- e:
	default:
	}
	return gnet.None
}

func TestC07FailedStart(t *testing.T) {
	st := vstat.New("C07.failed_start")
	defer st.Flush()
	warmUp()
	rapid.Check(t, func(t *rapid.T) {
		nets := []string{"tcp4", "unix", "udp4"}
		if fx.HasIPv6 {
			nets = append(nets, "tcp6")
		}
		badNet := rapid.SampledFrom(nets).Draw(t, "badNet")
		kind := rapid.SampledFrom([]string{"run-occupied", "rotate-second-occupied", "rotate-second-unparsable", "rotate-third-occupied"}).Draw(t, "kind")
		reusePort := rapid.Bool().Draw(t, "reuseport")
		loops := rapid.SampledFrom([]int{1, 2, 4}).Draw(t, "loops")
		goodNet := rapid.SampledFrom([]string{"tcp4", "unix"}).Draw(t, "goodNet")
		// the occupied address belongs to the harness
		var occupied, badAddr string
		var closers []func()
		switch badNet {
		case "unix":
			badAddr = fx.TmpDir() + fmt.Sprintf("/occ%d.sock", time.Now().UnixNano())
			l, err := net.Listen("unix", badAddr)
			if err != nil {
				t.Fatalf("VERIF-INFRA %v", err)
			}
			closers = append(closers, func() { l.Close() })
		case "udp4":
			c, err := net.ListenPacket("udp4", fx.Host("udp4")+":0")
			if err != nil {
				t.Fatalf("VERIF-INFRA %v", err)
			}
			badAddr = c.LocalAddr().String()
			closers = append(closers, func() { c.Close() })
		default:
			l, err := net.Listen(badNet, fx.Host(badNet)+":0")
			if err != nil {
				t.Fatalf("VERIF-INFRA %v", err)
			}
			badAddr = l.Addr().String()
			closers = append(closers, func() { l.Close() })
		}
		occupied = badNet + "://" + badAddr
		before := fdTable() // includes the occupying socket
		good := func() (string, string) {
			if goodNet == "unix" {
				p := fx.TmpDir() + fmt.Sprintf("/good%d.sock", time.Now().UnixNano())
				return "unix://" + p, p
			}
			return "tcp4://" + fx.FreeAddr("tcp4"), ""
		}
		var addrs []string
		var goodFiles []string
		addGood := func() {
			a, f := good()
			addrs = append(addrs, a)
			if f != "" {
				goodFiles = append(goodFiles, f)
			}
		}
		switch kind {
		case "run-occupied":
			addrs = []string{occupied}
		case "rotate-second-occupied":
			addGood()
			addrs = append(addrs, occupied)
		case "rotate-second-unparsable":
			addGood()
			addrs = append(addrs, rapid.SampledFrom([]string{"bogus://127.0.0.1:1", "tcp://127.0.0.1:notaport", "tcp4://[::1]:1", "udp://"}).Draw(t, "unparsable"))
		default:
			addGood()
			addGood()
			addrs = append(addrs, occupied)
		}
		h := &bootCatcher{eng: make(chan gnet.Engine, 1)}
		opts := []gnet.Option{gnet.WithNumEventLoop(loops), gnet.WithReusePort(reusePort), gnet.WithLogger(&fx.CaptureLogger{})}
		res := make(chan error, 1)
		go func() {
			if len(addrs) == 1 {
				res <- gnet.Run(h, addrs[0], opts...)
			} else {
				res <- gnet.Rotate(h, addrs, opts...)
			}
		}()
		var rerr error
		select {
		case rerr = <-res:
		case e := <-h.eng:
			// it started after all (the address was not really unusable): not a case
			_ = e.Stop(context.Background())
			<-res
			for _, c := range closers {
				c()
			}
			st.Label("started_anyway")
			return
		case <-time.After(10 * time.Second):
			t.Fatalf("VERIF-KEY:fd-failed-start Run/Rotate(%v) neither returned nor booted within 10s", addrs)
		}
		st.Eval()
		st.NonTrivial(vstat.Hash(kind, badNet, goodNet, reusePort, loops))
		st.Label(kind)
		desc := fmt.Sprintf("%s %v loops=%d reuseport=%v -> %v", kind, addrs, loops, reusePort, rerr)
		if st.WantSample(true) {
			st.Sample(true, desc)
		}
		var fails []string
		if rerr == nil {
			fails = append(fails, "VERIF-KEY:fd-failed-start Run/Rotate returned nil although one of its addresses cannot be used")
		}
		l := leaked(before)
		for _, c := range closers {
			c()
		}
		if len(l) > 0 {
			fails = append(fails, fmt.Sprintf("VERIF-KEY:fd-leak-failed-start after the failed start returned (%v), descriptors are still open that were not open before: %v", rerr, l))
		}
		for _, f := range goodFiles {
			if _, err := os.Stat(f); err == nil {
				fails = append(fails, fmt.Sprintf("VERIF-KEY:fd-sockfile-failed-start the Unix socket file %s created by the failed start still exists", f))
				os.Remove(f)
			}
		}
		if len(fails) > 0 {
			t.Fatalf("%s\ncase: %s", strings.Join(fails, "\n"), desc)
		}
	})
}

func TestMain(m *testing.M) {
	code := m.Run()
	fx.Cleanup()
	os.Exit(code)
}
