// C11 — linkedlist.Buffer behaves as a FIFO byte queue of copied segments.
package c11

import (
	"bytes"
	"errors"
	"fmt"
	"io"
	"strings"
	"testing"

	"pgregory.net/rapid"

	"github.com/panjf2000/gnet/v2/pkg/buffer/linkedlist"
	"github.com/panjf2000/gnet/v2/verifx/vio"
	"github.com/panjf2000/gnet/v2/verifx/vstat"
)

type machine struct {
	lb    linkedlist.Buffer
	segs  [][]byte // reference model: the queue of segments
	gen   vio.Gen
	hist  []string
	split bool // some operation ended inside a segment
}

func (m *machine) logf(format string, a ...any) { m.hist = append(m.hist, fmt.Sprintf(format, a...)) }

func (m *machine) total() int {
	n := 0
	for _, s := range m.segs {
		n += len(s)
	}
	return n
}

func (m *machine) flat() []byte {
	var b []byte
	for _, s := range m.segs {
		b = append(b, s...)
	}
	return b
}

// drop removes n bytes from the front of the model (n <= total).
func (m *machine) drop(n int) {
	for n > 0 {
		if n < len(m.segs[0]) {
			m.segs[0] = m.segs[0][n:]
			m.split = true
			return
		}
		n -= len(m.segs[0])
		m.segs = m.segs[1:]
	}
}

type failer interface {
	Fatalf(format string, args ...any)
}

func (m *machine) fail(t failer, key, format string, a ...any) {
	t.Fatalf("VERIF-KEY:%s %s\nhistory: %s", key, fmt.Sprintf(format, a...), strings.Join(m.hist, "; "))
}

func concat(bs [][]byte) []byte {
	var b []byte
	for _, s := range bs {
		b = append(b, s...)
	}
	return b
}

func (m *machine) invariant(t failer) {
	if g, w := m.lb.Buffered(), m.total(); g != w {
		m.fail(t, "ll-buffered", "Buffered() = %d, model holds %d bytes", g, w)
	}
	if g, w := m.lb.Len(), len(m.segs); g != w {
		m.fail(t, "ll-len", "Len() = %d, model holds %d segments", g, w)
	}
	if m.lb.IsEmpty() != (m.total() == 0) {
		m.fail(t, "ll-isempty", "IsEmpty() = %v with %d bytes / %d segments in the model", m.lb.IsEmpty(), m.total(), len(m.segs))
	}
	all, err := m.lb.Peek(-1)
	if err != nil {
		m.fail(t, "ll-peekall", "Peek(-1) failed: %v", err)
	}
	if !bytes.Equal(concat(all), m.flat()) {
		m.fail(t, "ll-content", "content differs from the model (%d vs %d bytes)", len(concat(all)), m.total())
	}
}

var segSizes = []int{1, 3, 511, 512, 513, 1000, 4097}

func (m *machine) segSize(t *rapid.T) int {
	return vio.Size(t, "n", 5000, segSizes...)
}

func (m *machine) actions() map[string]func(*rapid.T) {
	return map[string]func(*rapid.T){
		"": func(t *rapid.T) { m.invariant(t) },
		"PushBack": func(t *rapid.T) {
			n := m.segSize(t)
			data := m.gen.Next(n)
			m.logf("PushBack(%d)", n)
			arg := append([]byte(nil), data...)
			m.lb.PushBack(arg)
			for i := range arg { // the buffer must hold a copy
				arg[i] ^= 0xff
			}
			if n > 0 {
				m.segs = append(m.segs, data)
			}
		},
		"PushFront": func(t *rapid.T) {
			n := m.segSize(t)
			data := m.gen.Next(n)
			m.logf("PushFront(%d)", n)
			arg := append([]byte(nil), data...)
			m.lb.PushFront(arg)
			for i := range arg {
				arg[i] ^= 0xff
			}
			if n > 0 {
				m.segs = append([][]byte{data}, m.segs...)
			}
		},
		"Append": func(t *rapid.T) {
			n := m.segSize(t)
			data := m.gen.Next(n)
			m.logf("Append(%d)", n)
			m.lb.Append(append([]byte(nil), data...)) // ownership is transferred
			if n > 0 {
				m.segs = append(m.segs, data)
			}
		},
		"Pop": func(t *rapid.T) {
			m.logf("Pop")
			b := m.lb.Pop()
			if len(m.segs) == 0 {
				if b != nil {
					m.fail(t, "ll-pop-empty", "Pop on an empty list returned %d bytes", len(b))
				}
				return
			}
			if !bytes.Equal(b, m.segs[0]) {
				m.fail(t, "ll-pop", "Pop returned %d bytes, want the head segment of %d bytes", len(b), len(m.segs[0]))
			}
			m.segs = m.segs[1:]
		},
		"Read": func(t *rapid.T) {
			k := vio.Size(t, "k", 6000, m.headBounds()...)
			p := make([]byte, k)
			m.logf("Read(%d)", k)
			n, err := m.lb.Read(p)
			want := k
			if tot := m.total(); want > tot {
				want = tot
			}
			switch {
			case k == 0:
				if n != 0 || err != nil {
					m.fail(t, "ll-read0", "Read(empty slice) = (%d, %v)", n, err)
				}
			case want == 0:
				if n != 0 || err == nil {
					m.fail(t, "ll-read-empty", "Read on an empty list = (%d, %v), want (0, error)", n, err)
				}
			default:
				if n != want || err != nil {
					m.fail(t, "ll-read", "Read(%d) with %d buffered = (%d, %v), want (%d, nil)", k, m.total(), n, err, want)
				}
				if !bytes.Equal(p[:n], m.flat()[:n]) {
					m.fail(t, "ll-read-data", "Read(%d) returned wrong bytes", k)
				}
			}
			m.drop(want)
		},
		"Peek": func(t *rapid.T) {
			n := vio.Size(t, "n", 6000, m.headBounds()...)
			if rapid.IntRange(0, 9).Draw(t, "neg") == 0 {
				n = -n
			}
			m.logf("Peek(%d)", n)
			bs, err := m.lb.Peek(n)
			tot := m.total()
			if n > tot {
				if err == nil {
					m.fail(t, "ll-peek-short", "Peek(%d) with %d buffered returned no error", n, tot)
				}
				return
			}
			want := tot
			if n > 0 {
				want = n
			}
			if err != nil || !bytes.Equal(concat(bs), m.flat()[:want]) {
				m.fail(t, "ll-peek", "Peek(%d) with %d buffered returned %d bytes, err %v; want the first %d", n, tot, len(concat(bs)), err, want)
			}
		},
		"PeekWithBytes": func(t *rapid.T) {
			nb := rapid.IntRange(0, 3).Draw(t, "nbs")
			var extra [][]byte
			for i := 0; i < nb; i++ {
				extra = append(extra, bytes.Repeat([]byte{byte(0xA0 + i)}, vio.Size(t, "b", 3000, 1, 512, 1024)))
			}
			el := len(concat(extra))
			tot := m.total()
			n := vio.Size(t, "n", 9000, tot, el, el+tot, el+m.headLen())
			m.logf("PeekWithBytes(%d, %d slices/%d bytes)", n, nb, el)
			bs, err := m.lb.PeekWithBytes(n, extra...)
			whole := append(concat(extra), m.flat()...)
			switch {
			case n > el+tot:
				if err == nil {
					m.fail(t, "ll-peekwb-short", "PeekWithBytes(%d) with %d+%d bytes available returned no error", n, el, tot)
				}
			case n > tot:
				// the documented meaning ("puts them onto head") allows it; the
				// mixed buffer relies on it (C10). Accept an error here, but a nil
				// error must come with the right bytes.
				if err == nil && !bytes.Equal(concat(bs), whole[:n]) {
					m.fail(t, "ll-peekwb", "PeekWithBytes(%d) returned %d wrong bytes", n, len(concat(bs)))
				}
			default:
				want := len(whole)
				if n > 0 {
					want = n
				}
				if err != nil || !bytes.Equal(concat(bs), whole[:want]) {
					m.fail(t, "ll-peekwb", "PeekWithBytes(%d, %d extra bytes) with %d buffered returned %d bytes, err %v; want the first %d", n, el, tot, len(concat(bs)), err, want)
				}
			}
		},
		"Discard": func(t *rapid.T) {
			n := vio.Size(t, "n", 6000, m.headBounds()...)
			if rapid.IntRange(0, 9).Draw(t, "neg") == 0 {
				n = -n
			}
			m.logf("Discard(%d)", n)
			d, err := m.lb.Discard(n)
			want := 0
			if n > 0 {
				want = n
				if tot := m.total(); want > tot {
					want = tot
				}
			}
			if d != want || err != nil {
				m.fail(t, "ll-discard", "Discard(%d) with %d buffered = (%d, %v), want (%d, nil)", n, m.total(), d, err, want)
			}
			m.drop(want)
		},
		"ReadFrom": func(t *rapid.T) {
			r := vio.ReaderScript(t, "reader", &m.gen, 700, 511, 512, 513)
			m.logf("ReadFrom(%s)", r)
			// one segment per call of the reader that returned bytes
			rec := &recordingReader{r: r}
			n, err := m.lb.ReadFrom(rec)
			if n != int64(len(r.Got)) {
				m.fail(t, "ll-readfrom-count", "ReadFrom reported %d bytes, the reader returned %d", n, len(r.Got))
			}
			if r.EndsWithError() {
				if !errors.Is(err, vio.ErrScripted) {
					m.fail(t, "ll-readfrom-err", "ReadFrom returned %v, the reader failed with %v", err, vio.ErrScripted)
				}
			} else if err != nil {
				m.fail(t, "ll-readfrom-err", "ReadFrom returned %v after a clean EOF", err)
			}
			for _, c := range rec.chunks {
				m.segs = append(m.segs, c)
			}
		},
		"WriteTo": func(t *rapid.T) {
			w := vio.WriterScript(t, "writer", 6000, m.headBounds()...)
			m.logf("WriteTo(%s)", w)
			before := m.total()
			n, err := m.lb.WriteTo(w)
			if n != int64(len(w.Accepted)) {
				m.fail(t, "ll-writeto-count", "WriteTo reported %d bytes, the writer accepted %d", n, len(w.Accepted))
			}
			if len(w.Accepted) > before || !bytes.Equal(w.Accepted, m.flat()[:len(w.Accepted)]) {
				m.fail(t, "ll-writeto-data", "the writer accepted %d bytes that are not the front of the content", len(w.Accepted))
			}
			if w.Failed {
				if err == nil {
					m.fail(t, "ll-writeto-err", "the writer failed or was short but WriteTo returned nil")
				}
			} else if err != nil || int(n) != before {
				m.fail(t, "ll-writeto-drain", "a fully accepting writer got %d of %d bytes, err %v", n, before, err)
			}
			m.drop(len(w.Accepted))
		},
		"Reset": func(t *rapid.T) {
			m.logf("Reset")
			m.lb.Reset()
			m.segs = nil
		},
	}
}

type recordingReader struct {
	r      io.Reader
	chunks [][]byte
}

func (rr *recordingReader) Read(p []byte) (int, error) {
	n, err := rr.r.Read(p)
	if n > 0 {
		rr.chunks = append(rr.chunks, append([]byte(nil), p[:n]...))
	}
	return n, err
}

func (m *machine) headLen() int {
	if len(m.segs) == 0 {
		return 0
	}
	return len(m.segs[0])
}

func (m *machine) headBounds() []int {
	b := []int{m.total(), m.headLen()}
	if len(m.segs) > 1 {
		b = append(b, m.headLen()+len(m.segs[1]))
	}
	return b
}

func TestC11Machine(t *testing.T) {
	st := vstat.New("C11.machine")
	defer st.Flush()
	rapid.Check(t, func(t *rapid.T) {
		m := &machine{gen: vio.Gen{Key: 1111}}
		defer func() {
			st.Eval()
			if m.split {
				st.NonTrivial(vstat.Hash(strings.Join(m.hist, ";")))
				st.Label("split_a_segment")
			} else {
				st.Label("no_split")
			}
			if st.WantSample(m.split) {
				st.Sample(m.split, strings.Join(m.hist, "; "))
			}
		}()
		t.Repeat(m.actions())
	})
}

// FuzzC11List: the state machine under the native coverage-guided fuzzer (thorough tier).
func FuzzC11List(f *testing.F) {
	f.Fuzz(rapid.MakeFuzz(func(t *rapid.T) {
		m := &machine{gen: vio.Gen{Key: 1111}}
		t.Repeat(m.actions())
	}))
}
