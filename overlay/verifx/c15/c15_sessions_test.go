// C15 (engine half) — the loop the acceptor assigns a connection to follows the
// policy, and it is the loop on which all callbacks of that connection run.
package c15

import (
	"context"
	"errors"
	"fmt"
	"net"
	"os"
	"path/filepath"
	"strings"
	"sync"
	"sync/atomic"
	"testing"
	"time"

	"pgregory.net/rapid"

	gnet "github.com/panjf2000/gnet/v2"
	errorx "github.com/panjf2000/gnet/v2/pkg/errors"
	"github.com/panjf2000/gnet/v2/verifx/fx"
	"github.com/panjf2000/gnet/v2/verifx/vstat"
)

type lcase struct {
	Cfg   fx.Cfg
	Steps []lstep
}

type lstep struct {
	Kind string // open, close, register
	Arg  int    // open: client address slot (SAH); close: index into the live list; register: odd = a differing net.Addr rides in the context too
}

func (c lcase) String() string {
	var ss []string
	for _, s := range c.Steps {
		ss = append(ss, fmt.Sprintf("%s(%d)", s.Kind, s.Arg))
	}
	return fmt.Sprintf("%s\n steps: %s", c.Cfg, strings.Join(ss, " "))
}

type lconn struct {
	s      *lsess
	id     int
	loop   gnet.EventLoop
	goid   uint64
	remote string
	closed chan struct{}
	peer   net.Conn
}

type lsess struct {
	mu    sync.Mutex
	fails []string
}

func (s *lsess) failf(key, f string, a ...any) {
	s.mu.Lock()
	if len(s.fails) < 5 {
		s.fails = append(s.fails, fmt.Sprintf("VERIF-KEY:%s %s", key, fmt.Sprintf(f, a...)))
	}
	s.mu.Unlock()
}

func (c *lconn) OnOpen(gc gnet.Conn) ([]byte, gnet.Action) {
	c.loop, c.goid = gc.EventLoop(), fx.Goid()
	if gc.RemoteAddr() != nil {
		c.remote = gc.RemoteAddr().String()
	}
	return nil, gnet.None
}
func (c *lconn) same(gc gnet.Conn, where string) {
	if gc.EventLoop() != c.loop || fx.Goid() != c.goid {
		c.s.failf("lb-loop-identity", "conn%d: %s ran on another loop/goroutine than OnOpen", c.id, where)
	}
}
func (c *lconn) OnTraffic(gc gnet.Conn) gnet.Action {
	c.same(gc, "OnTraffic")
	b, _ := gc.Next(-1)
	_, _ = gc.Write(b)
	return gnet.None
}
func (c *lconn) OnClose(gc gnet.Conn, err error) gnet.Action {
	c.same(gc, "OnClose")
	close(c.closed)
	return gnet.None
}

func runLB(lc lcase) (fails []string, infra string, accepts int) {
	s := &lsess{}
	e, err := fx.Start(lc.Cfg, fx.EngineHooks{})
	if err != nil {
		return nil, err.Error(), 0
	}
	defer func() { _ = e.Stop() }()
	n := lc.Cfg.Loops
	var order []gnet.EventLoop // loops in order of first appearance
	idx := map[gnet.EventLoop]int{}
	goids := map[gnet.EventLoop]uint64{}
	count := map[gnet.EventLoop]int{}
	byRemote := map[string]gnet.EventLoop{}
	var live []*lconn
	dir := fx.TmpDir()
	var cseq int32
	// a plain target for Engine.Register (Source-Addr-Hash): every connection registered to it has the same remote address
	var target net.Listener
	var held []net.Conn
	var hmu sync.Mutex
	defer func() {
		if target != nil {
			target.Close()
			hmu.Lock()
			for _, c := range held {
				c.Close()
			}
			hmu.Unlock()
		}
	}()
	for _, st := range lc.Steps {
		if st.Kind == "register" {
			// OnBoot runs before the event-loops are registered with the balancer one by one: a
			// registration made in that window is hashed over fewer loops. An accepted connection
			// proves that the engine is up (the acceptor starts last).
			w := &lconn{s: s, id: -1, closed: make(chan struct{})}
			p, _, err := e.Connect(w)
			if err != nil {
				return s.fails, "warm-up connect: " + err.Error(), accepts
			}
			p.Close()
			select {
			case <-w.closed:
			case <-time.After(5 * time.Second):
			}
			break
		}
	}
	for _, st := range lc.Steps {
		switch st.Kind {
		case "open":
			c := &lconn{s: s, id: accepts, closed: make(chan struct{})}
			var p net.Conn
			var err error
			if lc.Cfg.Net == "unix" && lc.Cfg.LB == gnet.SourceAddrHash {
				// Unix-domain clients bound to re-used paths: equal remote address strings
				path := filepath.Join(dir, fmt.Sprintf("cli%d.sock", st.Arg))
				_ = os.Remove(path)
				p, err = connectFrom(e, c, path)
			} else {
				p, _, err = e.Connect(c)
			}
			if err != nil {
				if strings.Contains(err.Error(), fx.ErrInfra.Error()) {
					return s.fails, err.Error(), accepts
				}
				s.failf("lb-connect", "%v", err)
				return s.fails, "", accepts
			}
			c.peer = p
			_ = atomic.AddInt32(&cseq, 1)
			l := c.loop
			if _, seen := idx[l]; !seen {
				idx[l] = len(order)
				order = append(order, l)
				goids[l] = c.goid
				if len(order) > n {
					s.failf("lb-foreign", "connections were spread over %d loops, the engine has %d", len(order), n)
				}
			} else if goids[l] != c.goid {
				s.failf("lb-loop-identity", "conn%d: its loop runs on goroutine %d now, on %d before", c.id, c.goid, goids[l])
			}
			switch lc.Cfg.LB {
			case gnet.RoundRobin:
				// cyclic: accept i and accept i-n share a loop, the first n accepts use n distinct loops
				if accepts < n {
					if idx[l] != accepts {
						s.failf("lb-rr", "accept #%d was assigned to a loop that already got accept #%d (round-robin over %d loops)", accepts, idx[l], n)
					}
				} else if idx[l] != accepts%n {
					s.failf("lb-rr", "accept #%d was assigned to the loop of accept #%d, want that of accept #%d (round-robin over %d loops)", accepts, idx[l], accepts%n, n)
				}
			case gnet.LeastConnections:
				min := count[l]
				for _, o := range order {
					if count[o] < min {
						min = count[o]
					}
				}
				if len(order) < n || (len(order) == n && false) {
					// a loop that has not been seen yet holds no connection
					if _, fresh := idx[l]; fresh && count[l] > 0 {
						min = 0
					}
				}
				if count[l] > min {
					s.failf("lb-lc", "accept #%d went to a loop holding %d connections while another loop holds %d", accepts, count[l], min)
				}
			case gnet.SourceAddrHash:
				if c.remote != "" {
					if prev, ok := byRemote[c.remote]; ok && prev != l {
						s.failf("lb-sah", "remote address %q was served by two different loops", c.remote)
					}
					byRemote[c.remote] = l
				}
			}
			count[l]++
			live = append(live, c)
			accepts++
			// one echo round: callbacks stay on the assigned loop
			_ = p.SetDeadline(time.Now().Add(5 * time.Second))
			_, _ = p.Write([]byte("x"))
			var one [1]byte
			_, _ = p.Read(one[:])
		case "register":
			// Engine.Register hands the connection to the loop the policy picks for the connection's
			// remote address - also when the context carries a net.Addr of its own next to the net.Conn
			// (documented: the net.Conn precedes the net.Addr)
			if target == nil {
				tl, err := net.Listen("tcp4", fx.Host("tcp4")+":0")
				if err != nil {
					return s.fails, "target listener: " + err.Error(), accepts
				}
				target = tl
				go func() {
					for {
						c, err := tl.Accept()
						if err != nil {
							return
						}
						hmu.Lock()
						held = append(held, c)
						hmu.Unlock()
					}
				}()
			}
			c := &lconn{s: s, id: 1000 + accepts, closed: make(chan struct{})}
			nc, err := net.Dial("tcp4", target.Addr().String())
			if err != nil {
				return s.fails, "dial target: " + err.Error(), accepts
			}
			ctx := gnet.NewNetConnContext(gnet.NewContext(context.Background(), fx.ConnHooks(c)), nc)
			if st.Arg%2 == 1 {
				ctx = gnet.NewNetAddrContext(ctx, &net.TCPAddr{IP: net.IPv4(10, 9, byte(st.Arg), byte(accepts)), Port: 1000 + 7*st.Arg + accepts})
			}
			ch, err := e.Eng.Register(ctx)
			for try := 0; err != nil && errors.Is(err, errorx.ErrEmptyEngine) && try < 2000; try++ {
				// OnBoot has run, the event-loops are registered a moment later: not running yet
				time.Sleep(time.Millisecond)
				ch, err = e.Eng.Register(ctx)
			}
			if err != nil {
				nc.Close()
				s.failf("lb-register", "Engine.Register on a running engine: %v", err)
				return s.fails, "", accepts
			}
			select {
			case r := <-ch:
				if r.Err != nil || r.Conn == nil {
					s.failf("lb-register", "Engine.Register delivered {%v, %v}", r.Conn, r.Err)
					return s.fails, "", accepts
				}
			case <-time.After(8 * time.Second):
				s.failf("lb-register", "Engine.Register delivered no result within 8s")
				return s.fails, "", accepts
			}
			l := c.loop
			if _, seen := idx[l]; !seen {
				idx[l] = len(order)
				order = append(order, l)
				goids[l] = c.goid
				if len(order) > n {
					s.failf("lb-foreign", "connections were spread over %d loops, the engine has %d", len(order), n)
				}
			}
			if c.remote != "" {
				if prev, ok := byRemote[c.remote]; ok && prev != l {
					s.failf("lb-sah", "remote address %q (registered connections to one target) was served by two different loops", c.remote)
				}
				byRemote[c.remote] = l
			}
			count[l]++
		case "close":
			if len(live) == 0 {
				continue
			}
			i := st.Arg % len(live)
			c := live[i]
			live = append(live[:i], live[i+1:]...)
			c.peer.Close()
			select {
			case <-c.closed:
			case <-time.After(5 * time.Second):
				s.failf("lb-noclose", "conn%d: no OnClose within 5s of the peer's close", c.id)
				return s.fails, "", accepts
			}
			count[c.loop]--
			// the registry count is published before OnClose runs; the acceptor sees it
		}
	}
	for _, c := range live {
		c.peer.Close()
	}
	s.mu.Lock()
	defer s.mu.Unlock()
	return s.fails, "", accepts
}

// connectFrom connects a Unix-domain client that is bound to a path.
func connectFrom(e *fx.Engine, c *lconn, path string) (net.Conn, error) {
	return e.ConnectWith(c, func() (net.Conn, error) {
		d := net.Dialer{LocalAddr: &net.UnixAddr{Name: path, Net: "unix"}, Timeout: 5 * time.Second}
		return d.Dial("unix", e.Addr)
	})
}

func TestC15Sessions(t *testing.T) {
	st := vstat.New("C15.sessions")
	defer st.Flush()
	rapid.Check(t, func(t *rapid.T) {
		var lc lcase
		lc.Cfg = fx.DrawCfg(t, fx.DrawOpt{ServerOnly: true})
		lc.Cfg.ReusePort = false // the acceptor's policy is used in reactor mode
		lc.Cfg.RcvBuf, lc.Cfg.SndBuf, lc.Cfg.Ticker = 0, 0, false
		lc.Cfg.Loops = rapid.SampledFrom([]int{1, 2, 3, 4, 8}).Draw(t, "loops")
		lc.Cfg.Listeners = rapid.SampledFrom([]int{1, 1, 2, 3}).Draw(t, "listeners") // several addresses (Rotate) share the one acceptor and its policy
		if lc.Cfg.LB == gnet.SourceAddrHash && rapid.Bool().Draw(t, "unixForHash") {
			lc.Cfg.Net = "unix"
		}
		ns := rapid.IntRange(2, 4*lc.Cfg.Loops+6).Draw(t, "steps")
		for i := 0; i < ns; i++ {
			if k := rapid.IntRange(0, 3).Draw(t, "kind"); k == 0 {
				lc.Steps = append(lc.Steps, lstep{"close", rapid.IntRange(0, 40).Draw(t, "which")})
			} else if k == 1 && lc.Cfg.LB == gnet.SourceAddrHash && rapid.Bool().Draw(t, "register") {
				lc.Steps = append(lc.Steps, lstep{"register", rapid.IntRange(0, 9).Draw(t, "hint")})
			} else {
				lc.Steps = append(lc.Steps, lstep{"open", rapid.IntRange(0, 3).Draw(t, "slot")})
			}
		}
		fails, infra, accepts := runLB(lc)
		if infra != "" {
			t.Fatalf("VERIF-INFRA %s\n%s", infra, lc)
		}
		st.Eval()
		nt := lc.Cfg.Loops >= 2 && accepts >= 2*lc.Cfg.Loops
		if nt {
			st.NonTrivial(vstat.Hash(lc.String()))
		}
		st.Label(fmt.Sprintf("policy_%d", lc.Cfg.LB))
		if st.WantSample(nt) {
			st.Sample(nt, lc.String())
		}
		if len(fails) > 0 {
			t.Fatalf("%s\ncase: %s", strings.Join(fails, "\n"), lc)
		}
	})
}

func TestMain(m *testing.M) {
	code := m.Run()
	fx.Cleanup()
	os.Exit(code)
}
