// C10 — elastic buffers (ring + linked list) behave as one FIFO byte queue.
package c10

import (
	"bytes"
	"errors"
	"fmt"
	"strings"
	"testing"

	"pgregory.net/rapid"

	"github.com/panjf2000/gnet/v2/pkg/buffer/elastic"
	"github.com/panjf2000/gnet/v2/verifx/ringm"
	"github.com/panjf2000/gnet/v2/verifx/vio"
	"github.com/panjf2000/gnet/v2/verifx/vstat"
)

// ---- (a) the lazily allocated elastic.RingBuffer ----------------------------

func TestC10LazyRing(t *testing.T) {
	st := vstat.New("C10.lazyring")
	defer st.Flush()
	rapid.Check(t, func(t *rapid.T) {
		var rb elastic.RingBuffer
		m := &ringm.Machine{RB: &rb, Lazy: true, Done: rb.Done, Gen: vio.Gen{Key: 1010}, Prefix: "ering-"}
		m.Logf("var elastic.RingBuffer")
		defer func() {
			st.Eval()
			nt := m.Wrapped || m.Grew || m.Full
			if nt {
				st.NonTrivial(vstat.Hash(strings.Join(m.Hist, ";")))
			}
			for k, v := range map[string]bool{"wrapped": m.Wrapped, "grew": m.Grew, "exactly_full": m.Full, "trivial": !nt} {
				if v {
					st.Label(k)
				}
			}
			if st.WantSample(nt) {
				st.Sample(nt, strings.Join(m.Hist, "; "))
			}
		}()
		t.Repeat(m.Actions(rapid.SampledFrom([]int{40, 3000}).Draw(t, "maxSize")))
	})
}

// ---- (b) the mixed ring/linked-list elastic.Buffer ---------------------------

type mixed struct {
	mb    *elastic.Buffer
	max   int
	model []byte
	gen   vio.Gen
	hist  []string
	// observations for the non-trivial rule
	switched bool // a Peek of everything returned more than the two ring segments
	midNode  bool // a Peek/Discard/Read ended strictly inside the list part
}

func (m *mixed) logf(format string, a ...any) { m.hist = append(m.hist, fmt.Sprintf(format, a...)) }

type failer interface {
	Fatalf(format string, args ...any)
}

func (m *mixed) fail(t failer, key, format string, a ...any) {
	t.Fatalf("VERIF-KEY:%s %s\nhistory: %s", key, fmt.Sprintf(format, a...), strings.Join(m.hist, "; "))
}

func concat(bs [][]byte) []byte {
	var b []byte
	for _, s := range bs {
		b = append(b, s...)
	}
	return b
}

func nonEmpty(bs [][]byte) int {
	n := 0
	for _, s := range bs {
		if len(s) > 0 {
			n++
		}
	}
	return n
}

// ringPart: bytes of the content that sit in front of the list (observed as the
// first two segments of a whole Peek when more than two exist).
func (m *mixed) invariant(t failer) {
	if g, w := m.mb.Buffered(), len(m.model); g != w {
		m.fail(t, "mixed-buffered", "Buffered() = %d, model holds %d bytes", g, w)
	}
	if m.mb.IsEmpty() != (len(m.model) == 0) {
		m.fail(t, "mixed-isempty", "IsEmpty() = %v with %d bytes in the model", m.mb.IsEmpty(), len(m.model))
	}
	all, err := m.mb.Peek(-1)
	if err != nil {
		m.fail(t, "mixed-peekall", "Peek(-1) failed: %v", err)
	}
	if got := concat(all); !bytes.Equal(got, m.model) {
		m.fail(t, "mixed-content", "content differs from the model: have %d bytes, want %d", len(got), len(m.model))
	}
	if nonEmpty(all) > 2 {
		m.switched = true
	}
}

func (m *mixed) bounds() []int {
	return []int{m.max, len(m.model), m.max - len(m.model), 1024, 512}
}

func (m *mixed) size(t *rapid.T, label string, max int) int {
	return vio.Size(t, label, max, m.bounds()...)
}

func (m *mixed) actions(maxSize int) map[string]func(*rapid.T) {
	return map[string]func(*rapid.T){
		"": func(t *rapid.T) { m.invariant(t) },
		"Write": func(t *rapid.T) {
			n := m.size(t, "n", maxSize)
			data := m.gen.Next(n)
			m.logf("Write(%d)", n)
			arg := append([]byte(nil), data...)
			got, err := m.mb.Write(arg)
			for i := range arg {
				arg[i] ^= 0xff // the buffer must not alias the caller's slice
			}
			if got != n || err != nil {
				m.fail(t, "mixed-write", "Write of %d bytes returned (%d, %v)", n, got, err)
			}
			m.model = append(m.model, data...)
		},
		"Writev": func(t *rapid.T) {
			var nseg int
			switch rapid.IntRange(0, 9).Draw(t, "segKind") {
			case 0:
				nseg = rapid.IntRange(1020, 1030).Draw(t, "nseg")
			case 1:
				nseg = rapid.IntRange(1025, 3000).Draw(t, "nseg")
			default:
				nseg = rapid.IntRange(0, 6).Draw(t, "nseg")
			}
			var segs [][]byte
			var all []byte
			total := 0
			var lens []string
			for i := 0; i < nseg; i++ {
				var n int
				if nseg > 16 {
					n = rapid.IntRange(0, 3).Draw(t, "n")
				} else {
					n = m.size(t, "n", maxSize)
				}
				d := m.gen.Next(n)
				all = append(all, d...)
				segs = append(segs, append([]byte(nil), d...))
				total += n
				if nseg <= 16 {
					lens = append(lens, fmt.Sprint(n))
				}
			}
			if nseg > 16 {
				m.logf("Writev(%d segments, %d bytes)", nseg, total)
			} else {
				m.logf("Writev(%s)", strings.Join(lens, ","))
			}
			got, err := m.mb.Writev(segs)
			for _, s := range segs {
				for i := range s {
					s[i] ^= 0xff
				}
			}
			if got != total || err != nil {
				m.fail(t, "mixed-writev", "Writev of %d bytes returned (%d, %v)", total, got, err)
			}
			m.model = append(m.model, all...)
		},
		"ReadFrom": func(t *rapid.T) {
			r := vio.ReaderScript(t, "reader", &m.gen, maxSize, m.bounds()...)
			m.logf("ReadFrom(%s)", r)
			n, err := m.mb.ReadFrom(r)
			if n != int64(len(r.Got)) {
				m.fail(t, "mixed-readfrom-count", "ReadFrom reported %d bytes, the reader returned %d", n, len(r.Got))
			}
			if r.EndsWithError() {
				if !errors.Is(err, vio.ErrScripted) {
					m.fail(t, "mixed-readfrom-err", "ReadFrom returned %v, the reader failed with %v", err, vio.ErrScripted)
				}
			} else if err != nil {
				m.fail(t, "mixed-readfrom-err", "ReadFrom returned %v after a clean EOF", err)
			}
			m.model = append(m.model, r.Got...)
		},
		"Read": func(t *rapid.T) {
			k := m.size(t, "k", maxSize)
			p := make([]byte, k)
			m.logf("Read(%d)", k)
			n, _ := m.mb.Read(p)
			want := k
			if want > len(m.model) {
				want = len(m.model)
			}
			if n != want {
				m.fail(t, "mixed-read", "Read(%d) with %d buffered returned %d bytes, want %d", k, len(m.model), n, want)
			}
			if !bytes.Equal(p[:n], m.model[:n]) {
				m.fail(t, "mixed-read-data", "Read(%d) returned wrong bytes", k)
			}
			m.model = m.model[n:]
		},
		"Peek": func(t *rapid.T) {
			n := m.size(t, "n", maxSize+len(m.model))
			if rapid.IntRange(0, 9).Draw(t, "neg") == 0 {
				n = -n
			}
			m.logf("Peek(%d)", n)
			bs, err := m.mb.Peek(n)
			if n > len(m.model) {
				if err == nil {
					m.fail(t, "mixed-peek-short", "Peek(%d) with %d buffered returned no error", n, len(m.model))
				}
				return
			}
			want := len(m.model)
			if n > 0 {
				want = n
			}
			if err != nil {
				m.fail(t, "mixed-peek-err", "Peek(%d) with %d buffered failed: %v", n, len(m.model), err)
			}
			if got := concat(bs); !bytes.Equal(got, m.model[:want]) {
				m.fail(t, "mixed-peek", "Peek(%d) with %d buffered returned %d bytes; want the first %d", n, len(m.model), len(got), want)
			}
			if want < len(m.model) && nonEmpty(bs) > 2 {
				m.midNode = true
			}
		},
		"Discard": func(t *rapid.T) {
			n := m.size(t, "n", maxSize+len(m.model))
			if rapid.IntRange(0, 14).Draw(t, "neg") == 0 {
				n = -n
			}
			m.logf("Discard(%d)", n)
			d, _ := m.mb.Discard(n)
			want := 0
			if n > 0 {
				want = n
				if want > len(m.model) {
					want = len(m.model)
				}
			}
			if d != want {
				m.fail(t, "mixed-discard", "Discard(%d) with %d buffered returned %d, want %d", n, len(m.model), d, want)
			}
			m.model = m.model[want:]
		},
		"WriteTo": func(t *rapid.T) {
			w := vio.WriterScript(t, "writer", maxSize, m.bounds()...)
			m.logf("WriteTo(%s)", w)
			before := len(m.model)
			n, err := m.mb.WriteTo(w)
			if n != int64(len(w.Accepted)) {
				m.fail(t, "mixed-writeto-count", "WriteTo reported %d bytes, the writer accepted %d", n, len(w.Accepted))
			}
			if len(w.Accepted) > before || !bytes.Equal(w.Accepted, m.model[:len(w.Accepted)]) {
				m.fail(t, "mixed-writeto-data", "the writer accepted %d bytes that are not the front of the content", len(w.Accepted))
			}
			if !w.Failed && before > 0 && (int(n) != before || err != nil) {
				m.fail(t, "mixed-writeto-drain", "a fully accepting writer got %d of %d bytes, err %v", n, before, err)
			}
			if w.Failed && err == nil {
				m.fail(t, "mixed-writeto-err", "the writer failed or was short but WriteTo returned nil")
			}
			m.model = m.model[len(w.Accepted):]
		},
		"Reset": func(t *rapid.T) {
			nm := rapid.SampledFrom([]int{0, 0, -1, 1, 64, 1024, 4096}).Draw(t, "max")
			m.logf("Reset(%d)", nm)
			m.mb.Reset(nm)
			if nm > 0 {
				m.max = nm
			}
			m.model = nil
		},
		"Release": func(t *rapid.T) {
			m.logf("Release")
			m.mb.Release()
			m.model = nil
		},
	}
}

var staticLimits = []int{1, 64, 1023, 1024, 1025, 4096, 65536}

func TestC10Mixed(t *testing.T) {
	st := vstat.New("C10.mixed")
	defer st.Flush()
	rapid.Check(t, func(t *rapid.T) {
		max := rapid.SampledFrom(staticLimits).Draw(t, "maxStaticBytes")
		m := &mixed{max: max, gen: vio.Gen{Key: uint64(max) + 5}}
		if rapid.Bool().Draw(t, "viaNew") {
			mb, err := elastic.New(max)
			if err != nil {
				t.Fatalf("VERIF-KEY:mixed-new New(%d): %v", max, err)
			}
			m.mb = mb
			m.logf("New(%d)", max)
		} else {
			m.mb = new(elastic.Buffer)
			m.mb.Reset(max)
			m.logf("zero value; Reset(%d)", max)
		}
		maxSize := 3000
		if max >= 4096 {
			maxSize = rapid.SampledFrom([]int{3000, 70000}).Draw(t, "maxSize")
		}
		defer func() {
			st.Eval()
			nt := m.switched || m.midNode
			if nt {
				st.NonTrivial(vstat.Hash(strings.Join(m.hist, ";")))
			}
			if m.switched {
				st.Label("ring_to_list_switchover")
			}
			if m.midNode {
				st.Label("peek_ended_in_list_part")
			}
			if !nt {
				st.Label("ring_only")
			}
			if st.WantSample(nt) {
				st.Sample(nt, strings.Join(m.hist, "; "))
			}
			m.mb.Release()
		}()
		t.Repeat(m.actions(maxSize))
	})
}

// FuzzC10Mixed: the mixed-buffer state machine under the native coverage-guided fuzzer (thorough tier).
func FuzzC10Mixed(f *testing.F) {
	f.Fuzz(rapid.MakeFuzz(func(t *rapid.T) {
		max := rapid.SampledFrom(staticLimits).Draw(t, "maxStaticBytes")
		m := &mixed{max: max, gen: vio.Gen{Key: uint64(max) + 5}}
		m.mb = new(elastic.Buffer)
		m.mb.Reset(max)
		m.logf("zero value; Reset(%d)", max)
		defer m.mb.Release()
		t.Repeat(m.actions(3000))
	}))
}
