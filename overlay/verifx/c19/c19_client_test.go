package c19

// C19, the client's control API: Dial / DialContext / Enroll / EnrollContext deliver exactly
// one result per call - either a usable connection (and a nil error) or an error (and no
// connection) - while the client runs, while Client.Stop takes effect and after it has
// returned; after Stop every call reports an error and has no effect. A connection handed
// out with a nil error has seen exactly one OnOpen.

import (
	"fmt"
	"net"
	"reflect"
	"strings"
	"sync"
	"sync/atomic"
	"testing"
	"time"

	"pgregory.net/rapid"

	gnet "github.com/panjf2000/gnet/v2"
	"github.com/panjf2000/gnet/v2/verifx/fx"
	"github.com/panjf2000/gnet/v2/verifx/vstat"
)

type cliConn struct {
	opens, closes int32
}

type cliHandler struct {
	gnet.BuiltinEventEngine
	unbound int32
}

func (h *cliHandler) OnOpen(c gnet.Conn) ([]byte, gnet.Action) {
	if st, _ := c.Context().(*cliConn); st != nil {
		atomic.AddInt32(&st.opens, 1)
	} else {
		atomic.AddInt32(&h.unbound, 1)
	}
	return nil, gnet.None
}

func (h *cliHandler) OnTraffic(c gnet.Conn) gnet.Action { _, _ = c.Discard(-1); return gnet.None }

func (h *cliHandler) OnClose(c gnet.Conn, _ error) gnet.Action {
	if st, _ := c.Context().(*cliConn); st != nil {
		atomic.AddInt32(&st.closes, 1)
	}
	return gnet.None
}

type cliCase struct {
	Loops   int
	ET      bool
	Before  []string   // calls while the client runs
	Racing  [][]string // calls of goroutines that run while Client.Stop is in progress
	After   []string   // calls after Client.Stop has returned
	SlowUs  int        // the last running connection needs this long inside OnClose... (0 = none)
	StopGap int        // microseconds between starting the racing goroutines and Client.Stop
}

func (c cliCase) String() string {
	return fmt.Sprintf("client loops=%d ET=%v running=%v racing=%v stopGapUs=%d after=%v", c.Loops, c.ET, c.Before, c.Racing, c.StopGap, c.After)
}

var cliKinds = []string{"dial-tcp", "dialctx-tcp", "enroll-tcp", "enrollctx-tcp", "dial-unix", "enroll-unix", "dial-udp", "dialctx-udp"}

func isNilConn(c gnet.Conn) bool {
	if c == nil {
		return true
	}
	v := reflect.ValueOf(c)
	return v.Kind() == reflect.Ptr && v.IsNil()
}

func runClientCase(cs cliCase) (fails []string, infra string, racedOK, racedErr int) {
	var mu sync.Mutex
	failf := func(key, f string, a ...any) {
		mu.Lock()
		if len(fails) < 8 {
			fails = append(fails, fmt.Sprintf("VERIF-KEY:%s %s", key, fmt.Sprintf(f, a...)))
		}
		mu.Unlock()
	}
	// targets
	tl, err := net.Listen("tcp4", fx.Host("tcp4")+":0")
	if err != nil {
		return nil, err.Error(), 0, 0
	}
	defer tl.Close()
	upath := fmt.Sprintf("%s/c19cli-%d.sock", fx.TmpDir(), time.Now().UnixNano())
	ul, err := net.Listen("unix", upath)
	if err != nil {
		return nil, err.Error(), 0, 0
	}
	defer ul.Close()
	us, err := net.ListenUDP("udp4", &net.UDPAddr{IP: net.ParseIP(fx.Host("udp4"))})
	if err != nil {
		return nil, err.Error(), 0, 0
	}
	defer us.Close()
	var amu sync.Mutex
	var accepted []net.Conn
	var awg sync.WaitGroup
	for _, l := range []net.Listener{tl, ul} {
		awg.Add(1)
		go func(l net.Listener) {
			defer awg.Done()
			for {
				c, err := l.Accept()
				if err != nil {
					return
				}
				amu.Lock()
				accepted = append(accepted, c)
				amu.Unlock()
			}
		}(l)
	}
	defer func() {
		tl.Close()
		ul.Close()
		awg.Wait()
		amu.Lock()
		for _, c := range accepted {
			c.Close()
		}
		amu.Unlock()
	}()
	h := &cliHandler{}
	lg := &fx.CaptureLogger{}
	cli, err := gnet.NewClient(h, gnet.WithNumEventLoop(cs.Loops), gnet.WithEdgeTriggeredIO(cs.ET), gnet.WithLogger(lg))
	if err != nil {
		return nil, "NewClient: " + err.Error(), 0, 0
	}
	if err := cli.Start(); err != nil {
		return nil, "Client.Start: " + err.Error(), 0, 0
	}
	var phase int32 // 0 running, 1 stop in progress, 2 stopped
	call := func(kind string) (ok bool) {
		st := &cliConn{}
		var gc gnet.Conn
		var err error
		p0 := atomic.LoadInt32(&phase)
		var own net.Conn // a connection of ours that stays ours when Enroll refuses it
		switch kind {
		case "dial-tcp":
			gc, err = cli.Dial("tcp4", tl.Addr().String())
			st = nil
		case "dialctx-tcp":
			gc, err = cli.DialContext("tcp4", tl.Addr().String(), st)
		case "dial-unix":
			gc, err = cli.DialContext("unix", upath, st)
		case "dial-udp":
			gc, err = cli.Dial("udp4", us.LocalAddr().String())
			st = nil
		case "dialctx-udp":
			gc, err = cli.DialContext("udp4", us.LocalAddr().String(), st)
		case "enroll-tcp", "enrollctx-tcp", "enroll-unix":
			netw, addr := "tcp4", tl.Addr().String()
			if kind == "enroll-unix" {
				netw, addr = "unix", upath
			}
			nc, derr := net.Dial(netw, addr)
			if derr != nil {
				failf("VERIF-INFRA", "dial target: %v", derr)
				return false
			}
			own = nc
			if kind == "enroll-tcp" {
				gc, err = cli.Enroll(nc)
				st = nil
			} else {
				gc, err = cli.EnrollContext(nc, st)
			}
		}
		p1 := atomic.LoadInt32(&phase)
		if own != nil {
			// Enroll works on a duplicate: the net.Conn stays the caller's in either outcome
			own.Close()
		}
		if isNilConn(gc) == (err == nil) {
			failf("ctl-client-result", "%s (issued %s) returned {Conn: %v, error: %v}: a call delivers either a connection or an error", kind, phaseName(p0), gc, err)
			return false
		}
		if err != nil {
			if p1 == 0 {
				failf("ctl-client-refused", "%s on a running client failed: %v", kind, err)
			}
			if st != nil {
				time.Sleep(time.Millisecond)
				if n := atomic.LoadInt32(&st.opens); n != 0 {
					failf("ctl-client-effect", "%s (issued %s) returned the error %v, yet OnOpen ran %d times for it", kind, phaseName(p0), err, n)
				}
			}
			return false
		}
		if p0 == 2 {
			failf("ctl-client-after-stop", "%s issued after Client.Stop had returned delivered a connection", kind)
			return true
		}
		if st != nil {
			if n := atomic.LoadInt32(&st.opens); n != 1 {
				failf("ctl-client-open", "%s (issued %s) handed out a connection that has seen %d OnOpen calls", kind, phaseName(p0), n)
			}
		}
		return true
	}
	for _, k := range cs.Before {
		call(k)
	}
	// racing calls and the stop
	var wg sync.WaitGroup
	var okN, errN int32
	for _, calls := range cs.Racing {
		wg.Add(1)
		go func(calls []string) {
			defer wg.Done()
			for _, k := range calls {
				if call(k) {
					atomic.AddInt32(&okN, 1)
				} else {
					atomic.AddInt32(&errN, 1)
				}
			}
		}(calls)
	}
	time.Sleep(time.Duration(cs.StopGap) * time.Microsecond)
	atomic.StoreInt32(&phase, 1)
	stopRet := make(chan error, 1)
	go func() { stopRet <- cli.Stop() }()
	select {
	case err := <-stopRet:
		if err != nil {
			failf("ctl-client-stop", "Client.Stop returned %v", err)
		}
	case <-time.After(10 * time.Second):
		failf("ctl-client-stop", "Client.Stop did not return within 10s")
		return fails, "", 0, 0
	}
	atomic.StoreInt32(&phase, 2)
	done := make(chan struct{})
	go func() { wg.Wait(); close(done) }()
	select {
	case <-done:
	case <-time.After(10 * time.Second):
		failf("ctl-client-result", "a Dial/Enroll that raced Client.Stop delivered no result within 10s of Stop's return")
		return fails, "", 0, 0
	}
	for _, k := range cs.After {
		call(k)
	}
	if n := atomic.LoadInt32(&h.unbound); n != 0 {
		// Dial/Enroll without context: nothing to attribute, fine
		_ = n
	}
	for _, p := range lg.Panics() {
		failf("panic-logged", "%s", p)
	}
	return fails, "", int(okN), int(errN)
}

func phaseName(p int32) string {
	return [...]string{"while running", "while Client.Stop was in progress", "after Client.Stop had returned"}[p]
}

func TestC19Client(t *testing.T) {
	st := vstat.New("C19.client_api")
	defer st.Flush()
	rapid.Check(t, func(t *rapid.T) {
		var cs cliCase
		cs.Loops = rapid.IntRange(1, 3).Draw(t, "loops")
		cs.ET = rapid.Bool().Draw(t, "et")
		kind := rapid.SampledFrom(cliKinds)
		cs.Before = rapid.SliceOfN(kind, 0, 6).Draw(t, "running")
		ng := rapid.IntRange(0, 3).Draw(t, "racers")
		for i := 0; i < ng; i++ {
			cs.Racing = append(cs.Racing, rapid.SliceOfN(kind, 1, 4).Draw(t, "racing"))
		}
		cs.StopGap = rapid.SampledFrom([]int{0, 0, 50, 300, 1500}).Draw(t, "stopGapUs")
		cs.After = rapid.SliceOfN(kind, 1, 3).Draw(t, "after")
		fails, infra, okN, errN := runClientCase(cs)
		if infra != "" {
			t.Fatalf("VERIF-INFRA %s\n%s", infra, cs)
		}
		for _, f := range fails {
			if strings.Contains(f, "VERIF-INFRA") {
				t.Fatalf("%s\n%s", f, cs)
			}
		}
		st.Eval()
		nt := okN > 0 && errN > 0
		if nt {
			st.NonTrivial(vstat.Hash(cs.String()))
			st.Label("calls_racing_stop_some_served_some_refused")
		}
		st.LabelN("calls_after_stop", int64(len(cs.After)))
		if st.WantSample(nt) {
			st.Sample(nt, cs.String())
		}
		if len(fails) > 0 {
			t.Fatalf("%s\ncase: %s", strings.Join(fails, "\n"), cs)
		}
	})
}
