// C19 — engine and client control API obey their state machine.
package c19

import (
	"context"
	"errors"
	"fmt"
	"net"
	"os"
	"strings"
	"sync"
	"sync/atomic"
	"testing"
	"time"

	"github.com/panjf2000/ants/v2"
	"golang.org/x/sys/unix"
	"pgregory.net/rapid"

	gnet "github.com/panjf2000/gnet/v2"
	"github.com/panjf2000/gnet/v2/internal/vshim"
	errorx "github.com/panjf2000/gnet/v2/pkg/errors"
	goPool "github.com/panjf2000/gnet/v2/pkg/pool/goroutine"
	"github.com/panjf2000/gnet/v2/verifx/fx"
	"github.com/panjf2000/gnet/v2/verifx/vstat"
)

const bound = 10 * time.Second

type caseSpec struct {
	Cfg       fx.Cfg
	Before    []string   // calls on the zero-value handle
	Running   [][]string // per goroutine: calls while the engine runs
	Conns     int
	SlowClose bool       // one connection's OnClose takes 700 ms (shutdown in progress is observable)
	StopKind  string     // live, expired, register-shutdown, enroll-shutdown (a registered connection answers Shutdown)
	ShutAt    string     // open: from OnOpen; close: OnOpen answers Close, OnClose answers Shutdown
	During    [][]string // per goroutine: calls fired right after the shutdown request
	After     []string
	// PoolFull: while the "running" calls are issued the process-wide worker pool that carries out
	// registrations has no free worker: a Register/Enroll is then refused with an error - or, if it
	// is accepted all the same, it owes its result like any other
	PoolFull bool
}

func (c caseSpec) String() string {
	return fmt.Sprintf("cfg: %s\n before=%v running=%v conns=%d slowClose=%v stop=%s/%s during=%v after=%v workerPoolFullWhileRunning=%v", c.Cfg, c.Before, c.Running, c.Conns, c.SlowClose, c.StopKind, c.ShutAt, c.During, c.After, c.PoolFull)
}

var allCalls = []string{"validate", "count", "dup", "duplistener", "duplistener-wrong", "register-conn", "register-closedconn", "register-addr", "register-addr-addfail", "register-badaddr", "register-none",
	"loop-register-nil", "loop-enroll-nil", "loop-execute-nil", "loop-execute", "loop-register", "loop-enroll", "stop-expired-noop"}

// ---- connection state -------------------------------------------------------------------------

type cstate struct {
	s                 *session
	openAct, closeAct gnet.Action // what OnOpen / OnClose answer (a registration that shuts the engine down)
	slow              bool
	opens, closes     int32
	gc                gnet.Conn
	echoed            int32
}

func (c *cstate) OnOpen(gc gnet.Conn) ([]byte, gnet.Action) {
	atomic.AddInt32(&c.opens, 1)
	c.gc = gc
	atomic.AddInt32(&c.s.opened, 1)
	return nil, c.openAct
}
func (c *cstate) OnTraffic(gc gnet.Conn) gnet.Action {
	b, _ := gc.Next(-1)
	atomic.AddInt32(&c.echoed, int32(len(b)))
	return gnet.None
}
func (c *cstate) OnClose(gc gnet.Conn, err error) gnet.Action {
	if c.slow {
		time.Sleep(700 * time.Millisecond)
	}
	atomic.AddInt32(&c.closes, 1)
	atomic.AddInt32(&c.s.closed, 1)
	return c.closeAct
}

type session struct {
	poolFull, poolRefused int32
	poolRestore           func()
	plan           *vshim.Plan // fault shim (failing registrations)
	cs             caseSpec
	e              *fx.Engine
	eng            gnet.Engine
	opened, closed int32
	mu             sync.Mutex
	fails          []string
	target         net.Listener // plain echo target for Register/Enroll
	phase          int32        // 0 zero handle, 1 running, 2 shutdown requested, 3 stopped
	loopOf         gnet.Conn
	execs          int32
	regs           []*cstate
	peers          []net.Conn
}

func (s *session) failf(key, f string, a ...any) {
	s.mu.Lock()
	if len(s.fails) < 8 {
		s.fails = append(s.fails, fmt.Sprintf("VERIF-KEY:%s %s", key, fmt.Sprintf(f, a...)))
	}
	s.mu.Unlock()
}

// expect checks an error against what the phase allows.
func (s *session) expect(call string, phaseAtCall, phaseAfter int32, err error, running error) {
	var ok bool
	switch {
	case phaseAtCall == 0:
		ok = errors.Is(err, errorx.ErrEmptyEngine)
	case phaseAtCall == 1 && phaseAfter == 1:
		ok = errors.Is(err, running) || (running == nil && err == nil)
		if !ok && atomic.LoadInt32(&s.poolFull) == 1 && errors.Is(err, ants.ErrPoolOverload) && (strings.HasPrefix(call, "register-") || call == "loop-register" || call == "loop-enroll") {
			ok = true // refused because no worker is free: an error, and nothing is owed
			atomic.AddInt32(&s.poolRefused, 1)
		}
	case phaseAtCall == 3:
		ok = errors.Is(err, errorx.ErrEngineInShutdown)
	default: // issued while the shutdown was in progress: either answer
		ok = errors.Is(err, running) || (running == nil && err == nil) || errors.Is(err, errorx.ErrEngineInShutdown)
		if strings.HasPrefix(call, "dup") && err != nil {
			ok = true // the listener may be closed under the call's feet (a system-call error is an error all the same)
		}
	}
	if !ok {
		want := "nil"
		if running != nil {
			want = running.Error()
		}
		s.failf("ctl-state", "%s in phase %d->%d returned %v (running engine: %s; never started: %v; after shutdown: %v)", call, phaseAtCall, phaseAfter, err, want, errorx.ErrEmptyEngine, errorx.ErrEngineInShutdown)
	}
}

// oneResult waits for the single result of a Register/Enroll channel.
func (s *session) oneResult(call string, ch <-chan gnet.RegisteredResult, st *cstate) {
	select {
	case r, ok := <-ch:
		if !ok {
			s.failf("ctl-register-result", "%s: the result channel was closed without delivering a result", call)
			return
		}
		if (r.Conn == nil) == (r.Err == nil) {
			s.failf("ctl-register-result", "%s delivered {Conn: %v, Err: %v}: neither a connection nor an error", call, r.Conn, r.Err)
			return
		}
		if r.Conn != nil {
			// a usable connection: a byte written through it reaches the target, whose echo reaches the handler
			if err := r.Conn.AsyncWrite([]byte("u"), nil); err == nil && atomic.LoadInt32(&s.phase) == 1 {
				dl := time.Now().Add(3 * time.Second)
				for atomic.LoadInt32(&st.echoed) == 0 && atomic.LoadInt32(&s.phase) == 1 && time.Now().Before(dl) {
					time.Sleep(100 * time.Microsecond)
				}
				if atomic.LoadInt32(&st.echoed) == 0 && atomic.LoadInt32(&s.phase) == 1 {
					s.failf("ctl-register-unusable", "%s delivered a connection, but a byte written through it was not echoed back within 3s", call)
				}
			}
		}
		// exactly one: the channel is closed afterwards and yields nothing more
		select {
		case r2, ok := <-ch:
			if ok {
				s.failf("ctl-register-result", "%s delivered a second result %+v", call, r2)
			}
		case <-time.After(2 * time.Second):
			s.failf("ctl-register-result", "%s: the result channel was not closed after its single result", call)
		}
	case <-time.After(bound):
		// also for a call that was accepted while the engine was shutting down: its loop may
		// have gone before it got to the request, the call then yields an error, not nothing
		s.failf("ctl-register-result", "%s was accepted, but no result was delivered within %v (engine phase now %d)", call, bound, atomic.LoadInt32(&s.phase))
	}
}

// shutdownByRegistration registers a connection on the running engine whose
// OnOpen (or OnClose, after OnOpen answered Close) answers Shutdown. The call was
// accepted by a running engine and carried out (OnOpen is seen), so its single
// result is due whatever the callbacks answered; the engine then shuts down by itself.
func (s *session) shutdownByRegistration() {
	st := &cstate{s: s, openAct: gnet.Shutdown}
	if s.cs.ShutAt == "close" {
		st.openAct, st.closeAct = gnet.Close, gnet.Shutdown
	}
	call := s.cs.StopKind + "/" + s.cs.ShutAt
	rctx := gnet.NewContext(context.Background(), fx.ConnHooks(st))
	var ch <-chan gnet.RegisteredResult
	var err error
	if s.cs.StopKind == "enroll-shutdown" {
		nc, derr := net.Dial(s.target.Addr().Network(), s.target.Addr().String())
		if derr != nil {
			_ = s.eng.Stop(context.Background())
			return
		}
		ch, err = s.loopOf.EventLoop().Enroll(rctx, nc)
	} else {
		ch, err = s.eng.Register(gnet.NewNetAddrContext(rctx, s.target.Addr()))
	}
	if err != nil || ch == nil {
		s.failf("ctl-state", "%s on a running engine returned (%v, %v)", call, ch, err)
		_ = s.eng.Stop(context.Background())
		return
	}
	s.mu.Lock()
	s.regs = append(s.regs, st)
	s.mu.Unlock()
	n := 0
	timeout := time.After(bound)
loop:
	for {
		select {
		case r, ok := <-ch:
			if !ok {
				break loop
			}
			n++
			if (r.Conn == nil) == (r.Err == nil) {
				s.failf("ctl-register-result", "%s delivered {Conn: %v, Err: %v}: neither a connection nor an error", call, r.Conn, r.Err)
			}
		case <-timeout:
			if atomic.LoadInt32(&st.opens) > 0 {
				s.failf("ctl-register-result", "%s: OnOpen ran for the registered connection, but %d results were delivered and the channel was not closed within %v", call, n, bound)
			} else {
				s.failf("ctl-register-result", "%s was accepted by a running engine, OnOpen never ran and %d results were delivered within %v", call, n, bound)
			}
			_ = s.eng.Stop(context.Background())
			return
		}
	}
	if n != 1 {
		s.failf("ctl-register-result", "%s delivered %d results before the channel was closed, want exactly one", call, n)
	}
	if atomic.LoadInt32(&st.opens) == 0 {
		// the registration failed before OnOpen (dial error ...): nothing requested the shutdown
		_ = s.eng.Stop(context.Background())
	}
	if _, ok := s.e.WaitDone(bound); !ok {
		s.failf("ctl-shutdown-action", "%s: the Shutdown action of the registered connection did not make Run return within %v", call, bound)
		_ = s.eng.Stop(context.Background())
	}
}

func (s *session) do(call string, h gnet.Engine) {
	p0 := atomic.LoadInt32(&s.phase)
	ctx := context.Background()
	tAddr := s.target.Addr()
	defer func() {
		if r := recover(); r != nil {
			s.failf("ctl-panic", "%s in phase %d panicked: %v", call, p0, r)
		}
	}()
	var loop gnet.EventLoop
	if s.loopOf != nil && p0 > 0 {
		loop = s.loopOf.EventLoop()
	}
	switch call {
	case "validate":
		err := h.Validate()
		s.expect(call, p0, atomic.LoadInt32(&s.phase), err, nil)
	case "count":
		n := h.CountConnections()
		p1 := atomic.LoadInt32(&s.phase)
		if (p0 == 0 || p0 == 3) && n != -1 {
			s.failf("ctl-count", "CountConnections() = %d on a handle in phase %d, want -1", n, p0)
		}
		if p0 == 1 && p1 == 1 && n < 0 {
			s.failf("ctl-count", "CountConnections() = %d on a running engine", n)
		}
	case "dup":
		fd, err := h.Dup()
		s.expect(call, p0, atomic.LoadInt32(&s.phase), err, nil)
		if err == nil {
			var st unix.Stat_t
			if unix.Fstat(fd, &st) != nil {
				s.failf("ctl-dup", "Dup returned descriptor %d which is not open", fd)
			}
			unix.Close(fd)
		} else if fd != -1 {
			s.failf("ctl-dup", "Dup returned (%d, %v)", fd, err)
		}
	case "duplistener", "duplistener-wrong":
		netw, addr := "tcp", "127.0.0.1:1"
		if s.e != nil {
			addr = s.e.Addr
		}
		if s.cs.Cfg.Net == "unix" {
			netw = "unix"
		}
		want := error(nil)
		if call == "duplistener-wrong" {
			addr += "0"
			want = errorx.ErrInvalidNetworkAddress
		}
		fd, err := h.DupListener(netw, addr)
		s.expect(call, p0, atomic.LoadInt32(&s.phase), err, want)
		if err == nil {
			unix.Close(fd)
		}
	case "register-conn", "register-closedconn", "register-addr", "register-addr-addfail", "register-badaddr", "register-none":
		st := &cstate{s: s}
		rctx := gnet.NewContext(ctx, fx.ConnHooks(st))
		want := error(nil)
		switch call {
		case "register-conn", "register-closedconn":
			nc, err := net.Dial(tAddr.Network(), tAddr.String())
			if err != nil {
				return
			}
			if call == "register-closedconn" {
				nc.Close()
			}
			rctx = gnet.NewNetConnContext(rctx, nc)
		case "register-addr":
			rctx = gnet.NewNetAddrContext(rctx, tAddr)
		case "register-addr-addfail":
			// the loop's attempt to add the new descriptor to its poller fails: the call still owes its result
			if s.plan != nil {
				s.plan.AddFault(&vshim.Fault{Site: "(*Poller).AddRead/epoll_ctl_add", Fd: -1, K: 1, Errno: unix.ENOMEM})
				s.plan.AddFault(&vshim.Fault{Site: "(*Poller).AddReadWrite/epoll_ctl_add", Fd: -1, K: 1, Errno: unix.ENOSPC})
			}
			rctx = gnet.NewNetAddrContext(rctx, tAddr)
		case "register-badaddr":
			rctx = gnet.NewNetAddrContext(rctx, &net.TCPAddr{IP: net.IPv4(127, 0, 0, 1), Port: 1})
		default:
			want = errorx.ErrInvalidNetworkAddress
		}
		ch, err := h.Register(rctx)
		s.expect(call, p0, atomic.LoadInt32(&s.phase), err, want)
		if err == nil {
			if ch == nil {
				s.failf("ctl-register-result", "%s returned a nil channel and a nil error", call)
				return
			}
			s.mu.Lock()
			s.regs = append(s.regs, st)
			s.mu.Unlock()
			s.oneResult(call, ch, st)
		}
	case "loop-register-nil":
		if loop != nil {
			_, err := loop.Register(ctx, nil)
			s.expect(call, p0, atomic.LoadInt32(&s.phase), err, errorx.ErrInvalidNetworkAddress)
		}
	case "loop-enroll-nil":
		if loop != nil {
			_, err := loop.Enroll(ctx, nil)
			s.expect(call, p0, atomic.LoadInt32(&s.phase), err, errorx.ErrInvalidNetConn)
		}
	case "loop-execute-nil":
		if loop != nil {
			err := loop.Execute(ctx, nil)
			s.expect(call, p0, atomic.LoadInt32(&s.phase), err, errorx.ErrNilRunnable)
		}
	case "loop-execute":
		if loop != nil {
			ran := make(chan struct{}, 2)
			err := loop.Execute(ctx, gnet.RunnableFunc(func(context.Context) error { ran <- struct{}{}; return nil }))
			p1 := atomic.LoadInt32(&s.phase)
			s.expect(call, p0, p1, err, nil)
			if err == nil && p0 == 1 && p1 == 1 {
				select {
				case <-ran:
				case <-time.After(bound):
					if atomic.LoadInt32(&s.phase) == 1 {
						s.failf("ctl-execute", "an accepted runnable did not run within %v on a running engine", bound)
					}
				}
				select {
				case <-ran:
					s.failf("ctl-execute", "a runnable ran twice")
				case <-time.After(time.Millisecond):
				}
			}
		}
	case "loop-register", "loop-enroll":
		if loop != nil {
			st := &cstate{s: s}
			rctx := gnet.NewContext(ctx, fx.ConnHooks(st))
			var ch <-chan gnet.RegisteredResult
			var err error
			if call == "loop-register" {
				ch, err = loop.Register(rctx, tAddr)
			} else {
				nc, derr := net.Dial(tAddr.Network(), tAddr.String())
				if derr != nil {
					return
				}
				ch, err = loop.Enroll(rctx, nc)
			}
			s.expect(call, p0, atomic.LoadInt32(&s.phase), err, nil)
			if err == nil {
				s.mu.Lock()
				s.regs = append(s.regs, st)
				s.mu.Unlock()
				s.oneResult(call, ch, st)
			}
		}
	case "stop-expired-noop":
		// only meaningful before start and after shutdown: must report the state error and do nothing
		if p0 == 0 || p0 == 3 {
			cctx, cancel := context.WithCancel(ctx)
			cancel()
			err := h.Stop(cctx)
			s.expect("stop", p0, atomic.LoadInt32(&s.phase), err, nil)
		}
	}
}

func runCase(cs caseSpec) (fails []string, infra string) {
	s := &session{cs: cs, plan: &vshim.Plan{}}
	vshim.Install(s.plan)
	defer vshim.Install(nil)
	tl, err := net.Listen("tcp4", fx.Host("tcp4")+":0") // this process's own loop-back address: TIME_WAIT remnants do not pile up on one address
	if err != nil {
		return nil, err.Error()
	}
	s.target = tl
	defer tl.Close()
	go func() { // echo target
		for {
			c, err := tl.Accept()
			if err != nil {
				return
			}
			go func(c net.Conn) {
				defer c.Close()
				buf := make([]byte, 256)
				for {
					n, err := c.Read(buf)
					if err != nil {
						return
					}
					_, _ = c.Write(buf[:n])
				}
			}(c)
		}
	}()
	// ---- phase 0: a handle that was never started ----
	var zero gnet.Engine
	for _, call := range cs.Before {
		s.do(call, zero)
	}
	// ---- phase 1: running ----
	e, err := fx.Start(cs.Cfg, fx.EngineHooks{})
	if err != nil {
		return nil, err.Error()
	}
	s.e, s.eng = e, e.Eng
	for i := 0; i < cs.Conns; i++ {
		st := &cstate{s: s, slow: cs.SlowClose && i == 0}
		p, _, err := e.Connect(st)
		if err != nil {
			_ = e.Stop()
			return nil, err.Error()
		}
		s.peers = append(s.peers, p)
		if s.loopOf == nil {
			s.loopOf = st.gc
		}
		s.mu.Lock()
		s.regs = append(s.regs, st)
		s.mu.Unlock()
	}
	atomic.StoreInt32(&s.phase, 1)
	var wg sync.WaitGroup
	if cs.PoolFull {
		release := make(chan struct{})
		busy := make(chan struct{})
		goPool.DefaultWorkerPool.Tune(1)
		if err := goPool.DefaultWorkerPool.Submit(func() { close(busy); <-release }); err == nil {
			<-busy
			atomic.StoreInt32(&s.poolFull, 1)
		}
		defer func() {
			if atomic.LoadInt32(&s.poolFull) == 1 {
				atomic.StoreInt32(&s.poolFull, 0)
			}
		}()
		restore := func() {
			close(release)
			goPool.DefaultWorkerPool.Tune(goPool.DefaultAntsPoolSize)
			atomic.StoreInt32(&s.poolFull, 0)
		}
		defer func() {
			select {
			case <-release:
			default:
				restore()
			}
		}()
		s.poolRestore = restore
	}
	for _, calls := range cs.Running {
		wg.Add(1)
		go func(calls []string) {
			defer wg.Done()
			for _, c := range calls {
				s.do(c, s.eng)
			}
		}(calls)
	}
	wg.Wait()
	if s.poolRestore != nil {
		s.poolRestore()
		s.poolRestore = nil
	}
	// ---- phase 2: shutdown requested ----
	atomic.StoreInt32(&s.phase, 2)
	stopRes := make(chan error, 1)
	t0 := time.Now()
	if cs.StopKind == "expired" {
		cctx, cancel := context.WithCancel(context.Background())
		cancel()
		go func() { stopRes <- s.eng.Stop(cctx) }()
	} else if strings.HasSuffix(cs.StopKind, "-shutdown") {
		go func() { s.shutdownByRegistration(); stopRes <- nil }()
	} else {
		go func() { stopRes <- s.eng.Stop(context.Background()) }()
	}
	for _, calls := range cs.During {
		wg.Add(1)
		go func(calls []string) {
			defer wg.Done()
			for _, c := range calls {
				s.do(c, s.eng)
			}
		}(calls)
	}
	var serr error
	select {
	case serr = <-stopRes:
	case <-time.After(bound):
		s.failf("ctl-stop-hang", "Stop did not return within %v", bound)
	}
	stopReturned := time.Now()
	if cs.StopKind == "expired" {
		if serr == nil && time.Since(t0) < 400*time.Millisecond && cs.SlowClose {
			s.failf("ctl-stop-nil", "Stop with an expired context returned nil %v after the request although a connection needs 700ms to close", time.Since(t0))
		}
		if serr != nil && !errors.Is(serr, context.Canceled) && !errors.Is(serr, errorx.ErrEngineInShutdown) {
			s.failf("ctl-stop-err", "Stop with an expired context returned %v, want the context's error", serr)
		}
	} else {
		if serr != nil && !errors.Is(serr, errorx.ErrEngineInShutdown) {
			s.failf("ctl-stop-err", "Stop returned %v", serr)
		}
		if serr == nil {
			// nil only after the engine has fully shut down
			s.mu.Lock()
			regs := append([]*cstate(nil), s.regs...)
			s.mu.Unlock()
			for _, st := range regs {
				if o, c := atomic.LoadInt32(&st.opens), atomic.LoadInt32(&st.closes); o == 1 && c != 1 {
					s.failf("ctl-stop-early", "Stop returned nil although a connection that was opened has not seen its OnClose yet (shutdown not complete)")
					break
				}
			}
			if n := atomic.LoadInt32(&e.Shutdowns); n != 1 {
				s.failf("ctl-stop-early", "Stop returned nil, OnShutdown has run %d times", n)
			}
			if err := s.eng.Validate(); !errors.Is(err, errorx.ErrEngineInShutdown) {
				s.failf("ctl-stop-early", "Stop returned nil but Validate reports %v", err)
			}
		}
	}
	// the shutdown is never cancelled: Run returns
	if _, ok := e.WaitDone(bound); !ok {
		s.failf("ctl-stop-cancelled", "Run did not return within %v of Stop(%s) (returned %v after %v)", bound, cs.StopKind, serr, stopReturned.Sub(t0))
		_ = e.Stop()
	}
	wg.Wait()
	// ---- phase 3: stopped ----
	atomic.StoreInt32(&s.phase, 3)
	time.Sleep(time.Millisecond)
	for _, call := range cs.After {
		s.do(call, s.eng)
	}
	if err := s.eng.Stop(context.Background()); !errors.Is(err, errorx.ErrEngineInShutdown) {
		s.failf("ctl-state", "a second Stop after the shutdown returned %v", err)
	}
	for _, p := range s.peers {
		p.Close()
	}
	for _, p := range e.Logger.Panics() {
		s.failf("panic-logged", "%s", p)
	}
	return s.fails, ""
}

func drawCalls(t *rapid.T, label string, max int, pool []string) []string {
	n := rapid.IntRange(0, max).Draw(t, label)
	var out []string
	for i := 0; i < n; i++ {
		out = append(out, rapid.SampledFrom(pool).Draw(t, label+"#call"))
	}
	return out
}

func drawCase(t *rapid.T) caseSpec {
	var cs caseSpec
	cs.Cfg = fx.DrawCfg(t, fx.DrawOpt{ServerOnly: true, MaxLoops: 4})
	if cs.Cfg.LB == gnet.RoundRobin {
		cs.Cfg.LB = gnet.LeastConnections // Engine.Register with Round-Robin is a documented data race
	}
	cs.Before = drawCalls(t, "before", 4, []string{"validate", "count", "dup", "duplistener", "register-addr", "register-none", "stop-expired-noop"})
	ng := rapid.IntRange(1, 4).Draw(t, "goroutines")
	for i := 0; i < ng; i++ {
		cs.Running = append(cs.Running, drawCalls(t, "running", 5, allCalls))
	}
	cs.Conns = rapid.IntRange(1, 4).Draw(t, "conns")
	cs.SlowClose = rapid.IntRange(0, 9).Draw(t, "slowClose") == 0
	cs.StopKind = rapid.SampledFrom([]string{"live", "live", "expired", "register-shutdown", "enroll-shutdown"}).Draw(t, "stop")
	cs.ShutAt = rapid.SampledFrom([]string{"open", "close"}).Draw(t, "shutAt")
	nd := rapid.IntRange(0, 3).Draw(t, "duringGoroutines")
	for i := 0; i < nd; i++ {
		cs.During = append(cs.During, drawCalls(t, "during", 4, allCalls))
	}
	cs.After = drawCalls(t, "after", 6, allCalls)
	if rapid.IntRange(0, 5).Draw(t, "poolFull") == 0 {
		cs.PoolFull = true
		for _, calls := range cs.Running {
			for i, c := range calls {
				if c == "register-addr-addfail" {
					calls[i] = "register-addr" // its armed faults would wait for somebody else's registration
				}
			}
		}
	}
	return cs
}

func TestC19ControlAPI(t *testing.T) {
	st := vstat.New("C19.control_api")
	defer st.Flush()
	rapid.Check(t, func(t *rapid.T) {
		cs := drawCase(t)
		fails, infra := runCase(cs)
		if infra != "" {
			t.Fatalf("VERIF-INFRA %s\n%s", infra, cs)
		}
		st.Eval()
		nt := false
		for _, d := range cs.During {
			if len(d) > 0 {
				nt = true
			}
		}
		if nt {
			st.NonTrivial(vstat.Hash(cs.String()))
			st.Label("calls_issued_during_shutdown")
		}
		if cs.SlowClose {
			st.Label("slow_onclose")
		}
		st.Label("stop_" + cs.StopKind)
		if st.WantSample(nt) {
			st.Sample(nt, cs.String())
		}
		if len(fails) > 0 {
			t.Fatalf("%s\ncase:\n%s", strings.Join(fails, "\n"), cs)
		}
	})
}

func TestMain(m *testing.M) {
	code := m.Run()
	fx.Cleanup()
	os.Exit(code)
}
