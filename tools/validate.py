#!/opt/veriftools/pyvenv/bin/python
import json, jsonschema, sys, glob
m=json.load(open('/verif/MANIFEST.json')); s=json.load(open('/root/.vp/MANIFEST.schema.json'))
jsonschema.validate(m,s); print("manifest valid")
s=json.load(open('/root/.vp/EVIDENCE.schema.json'))
for f in sorted(glob.glob('/verif/evidence/*.json')):
    e=json.load(open(f)); jsonschema.validate(e,s)
    c=e['coverage']; print(f, 'valid', e['tier'], c['evaluations'], c['distinct_nontrivial'], e['wall_s'])
