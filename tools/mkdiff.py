#!/usr/bin/env python3
"""mkdiff.py <relpath> <old> <new> [<relpath> <old> <new> ...] > patch.diff  (exact-substring replacement against /repo)"""
import sys, difflib, os
a = sys.argv[1:]
out = []
for i in range(0, len(a), 3):
    rel, old, new = a[i], a[i+1], a[i+2]
    s = open(os.path.join(os.environ.get("VERIF_REPO", "/repo"), rel)).read()
    old = old.encode().decode('unicode_escape'); new = new.encode().decode('unicode_escape')
    if s.count(old) != 1:
        sys.exit("pattern occurs %d times in %s" % (s.count(old), rel))
    t = s.replace(old, new)
    out += difflib.unified_diff(s.splitlines(True), t.splitlines(True), "a/" + rel, "b/" + rel)
sys.stdout.write("".join(out))
