#!/bin/bash
# Runs every seeded change against the quick check(s) of its property; writes seeded/MATRIX.txt
out=/verif/seeded/MATRIX.txt
: > $out.tmp
for d in /verif/seeded/*/; do
  n=$(basename $d); id=${n%%-*}
  checks="$id"
  case $n in C03-B) checks="C02";; C01-B) checks="C01 C12";; C12-B) checks="C12 C10 C11";; C05-B) checks="C05 C04";; C07-B) checks="C07 C04";; C10-A) checks="C10 C11";; C10-B) checks="C10 C09";; C15-E) checks="C14";; esac
  for c in $checks; do
    if [ "$n" = "C17-B" ]; then
      W=/tmp/c17b.$$; git -C /repo worktree add --detach $W ff24617 >/dev/null 2>&1; (cd $W && git apply $d/patch.diff)
      r=$(cd /verif && VERIF_EVIDENCE_DIR=$W/.ev VERIF_REPLAY_DIR=$W/.rp VERIF_REPO=$W ./check $c 2>&1 | grep -E "^(VIOLATION|OK|INCONCLUSIVE)" | head -1 | cut -c1-60)
      git -C /repo worktree remove --force $W >/dev/null 2>&1
    else
      r=$(/verif/tools/mutant.sh $d/patch.diff $c 2>&1 | grep -E "^(VIOLATION|OK|INCONCLUSIVE)" | head -1 | cut -c1-60)
    fi
    k=$(echo "$r" | awk '{print $1}')
    echo "$n  check=$c  $k" | tee -a $out.tmp
  done
done
mv $out.tmp $out
