#!/usr/bin/env python3
"""keep_seed.py <srcdir> <NAME> <property> <caught_by|MISSED> [note]  -> /verif/seeded/<NAME>/"""
import json, os, shutil, sys
src, name, prop, caught = sys.argv[1:5]
note = sys.argv[5] if len(sys.argv) > 5 else ""
d = os.path.join('/verif/seeded', name)
os.makedirs(d, exist_ok=True)
shutil.copy2(os.path.join(src, 'patch.diff'), os.path.join(d, 'patch.diff'))
shutil.copy2(os.path.join(src, 'demo_test.go'), os.path.join(d, 'demo_test.go.txt'))
meta = {}
try:
    meta = json.load(open(os.path.join(src, 'meta.json')))
except Exception as e:
    meta = {"agent_meta_error": str(e)}
conf = json.load(open(os.path.join(src, 'confirm.json')))
out = dict(property=prop, name=name, summary=meta.get('summary'), needs=meta.get('needs'), agent_ran=meta.get('ran'),
           confirmed=conf, what_i_ran=["tools/confirm_seed.sh (scratch worktree of /repo HEAD: build, demo with/without the patch, existing tests of the touched packages in a private network namespace)",
                                        "tools/mutant.sh <patch> %s (quick tier)" % prop],
           caught_by=caught, note=note)
json.dump(out, open(os.path.join(d, 'meta.json'), 'w'), indent=1)
print("kept", d)
