// instr: rewrite package qualifiers of selected calls in Go files.
// usage: instr -map atomic.*=path/vatomic,unix.Write=path/vunix [-ident epollWait=vEpollWait] file.go ...
// -map   pkg.Func=importpath : a call pkg.Func(...) becomes v<pkg>_.Func(...) with v<pkg>_ importing importpath
// -ident name=newname        : a call name(...) of a package-level function becomes newname(...)
package main

import (
	"flag"
	"fmt"
	"go/ast"
	"go/parser"
	"go/printer"
	"go/token"
	"os"
	"strconv"
	"strings"
)

func main() {
	mapping := flag.String("map", "", "comma list: pkg.Func=importpath (Func may be *)")
	identMap := flag.String("ident", "", "comma list: name=newname for calls of package-level functions")
	flag.Parse()
	type rule struct{ pkg, fn, imp string }
	var rules []rule
	for _, m := range strings.Split(*mapping, ",") {
		if m == "" {
			continue
		}
		kv := strings.SplitN(m, "=", 2)
		pf := strings.SplitN(kv[0], ".", 2)
		rules = append(rules, rule{pf[0], pf[1], kv[1]})
	}
	idents := map[string]string{}
	for _, m := range strings.Split(*identMap, ",") {
		if m == "" {
			continue
		}
		kv := strings.SplitN(m, "=", 2)
		idents[kv[0]] = kv[1]
	}
	for _, file := range flag.Args() {
		fset := token.NewFileSet()
		f, err := parser.ParseFile(fset, file, nil, parser.ParseComments)
		if err != nil {
			panic(err)
		}
		used := map[string]string{} // alias -> import path
		n := 0
		ast.Inspect(f, func(nd ast.Node) bool {
			call, ok := nd.(*ast.CallExpr)
			if !ok {
				return true
			}
			if fid, ok := call.Fun.(*ast.Ident); ok {
				if nn, ok := idents[fid.Name]; ok && (fid.Obj == nil || fid.Obj.Kind == ast.Fun) {
					fid.Name = nn
					n++
				}
				return true
			}
			sel, ok := call.Fun.(*ast.SelectorExpr)
			if !ok {
				return true
			}
			id, ok := sel.X.(*ast.Ident)
			if !ok || id.Obj != nil {
				return true
			}
			for _, r := range rules {
				if id.Name == r.pkg && (r.fn == "*" || r.fn == sel.Sel.Name) {
					alias := "v" + r.pkg + "_"
					used[alias] = r.imp
					id.Name = alias
					n++
					break
				}
			}
			return true
		})
		for alias, imp := range used {
			spec := &ast.ImportSpec{Name: ast.NewIdent(alias), Path: &ast.BasicLit{Kind: token.STRING, Value: strconv.Quote(imp)}}
			decl := &ast.GenDecl{Tok: token.IMPORT, Specs: []ast.Spec{spec}}
			f.Decls = append([]ast.Decl{decl}, f.Decls...)
			f.Imports = append(f.Imports, spec)
		}
		// drop now-unused imports
		stillUsed := map[string]bool{}
		ast.Inspect(f, func(nd ast.Node) bool {
			if sel, ok := nd.(*ast.SelectorExpr); ok {
				if id, ok := sel.X.(*ast.Ident); ok && id.Obj == nil {
					stillUsed[id.Name] = true
				}
			}
			return true
		})
		for _, d := range f.Decls {
			gd, ok := d.(*ast.GenDecl)
			if !ok || gd.Tok != token.IMPORT {
				continue
			}
			var keep []ast.Spec
			for _, s := range gd.Specs {
				is := s.(*ast.ImportSpec)
				path, _ := strconv.Unquote(is.Path.Value)
				name := path[strings.LastIndex(path, "/")+1:]
				if is.Name != nil {
					name = is.Name.Name
				}
				if name == "_" || name == "." || stillUsed[name] {
					keep = append(keep, s)
				}
			}
			gd.Specs = keep
		}
		out, err := os.Create(file)
		if err != nil {
			panic(err)
		}
		if err := printer.Fprint(out, fset, f); err != nil {
			panic(err)
		}
		out.Close()
		fmt.Fprintf(os.Stderr, "instr: %s: %d call sites rewritten\n", file, n)
	}
}
