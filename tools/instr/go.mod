module verif/instr

go 1.20
