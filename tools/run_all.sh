#!/bin/bash
# usage: tools/run_all.sh <tier> [ids...]   -> one summary line per property
tier=${1:-quick}; shift
ids=${@:-C01 C02 C03 C04 C05 C06 C07 C08 C09 C10 C11 C12 C13 C14 C15 C16 C17 C18 C19 C20}
for id in $ids; do
  t0=$(date +%s)
  out=$(./check $id --tier $tier 2>/tmp/run_all.$id.err | grep -E "^(OK|VIOLATION|INCONCLUSIVE|KNOWN)" | tr '\n' ' ' | cut -c1-400)
  rc=$?
  echo "$id tier=$tier wall=$(( $(date +%s) - t0 ))s :: $out"
done
