#!/bin/bash
# usage: tools/confirm_seed.sh <srcdir with patch.diff demo_test.go meta.json> <name>
# Confirms a seeded change in a scratch worktree of /repo's HEAD:
#   builds, demo fails with the patch and passes without, existing tests of the touched packages pass.
# Writes <srcdir>/confirm.json. Network tests run inside a private network namespace (lo + a veth named eth0).
set -u
SRC="$1"; NAME="$2"
export GOFLAGS=-mod=mod GOPROXY=off GOSUMDB=off GOTOOLCHAIN=local
WT=/tmp/seedwt/$NAME
rm -rf "$WT"; mkdir -p /tmp/seedwt
git -C /repo worktree add --detach "$WT" HEAD >/dev/null 2>&1 || { echo "worktree failed"; exit 2; }
cleanup() { git -C /repo worktree remove --force "$WT" >/dev/null 2>&1; rm -rf "$WT"; }
trap cleanup EXIT
cd "$WT"
apply() { git apply --3way "$SRC/patch.diff" >/dev/null 2>&1 || git apply "$SRC/patch.diff" >/dev/null 2>&1; r=$?; git reset -q 2>/dev/null; return $r; }
pristine() { git checkout -q -- . ; git clean -fdq; }
applies=true; apply || applies=false
pkgname=$(grep -m1 '^package ' "$SRC/demo_test.go" | awk '{print $2}')
case "$pkgname" in
  gnet|gnet_test) dir=. ;;
  queue|queue_test) dir=pkg/queue ;;
  ring|ring_test) dir=pkg/buffer/ring ;;
  elastic|elastic_test) dir=pkg/buffer/elastic ;;
  linkedlist|linkedlist_test) dir=pkg/buffer/linkedlist ;;
  netpoll|netpoll_test) dir=pkg/netpoll ;;
  byteslice|byteslice_test) dir=pkg/pool/byteslice ;;
  ringbuffer|ringbuffer_test) dir=pkg/pool/ringbuffer ;;
  socket|socket_test) dir=pkg/socket ;;
  math|math_test) dir=pkg/math ;;
  gfd|gfd_test) dir=internal/gfd ;;
  *) dir=. ;;
esac
tags=$(grep 'go test' "$SRC/demo_test.go" | grep -o -- '-tags[ =][a-z_,]*' | head -1 | sed 's/-tags[ =]//')
tagarg=""; [ -n "$tags" ] && tagarg="-tags $tags"
runre=$(grep -o 'func Test[A-Za-z0-9_]*' "$SRC/demo_test.go" | sed 's/func //' | paste -sd'|')
NETNS='ip link set lo up; ip link add eth0 type veth peer name vpeer; ip addr add 10.77.0.1/24 dev eth0; ip link set eth0 up; ip link set vpeer up; ip route add default dev eth0; sleep 3;'
run_demo() { unshare -n sh -c "$NETNS cd $WT && timeout 300 go test $tagarg -count=1 -run '^($runre)\$' -timeout 280s ./$dir" > "$1" 2>&1; echo $?; }
builds=false; go build ./... >/dev/null 2>&1 && go test -count=1 -run '^$' ./... >/dev/null 2>&1 && builds=true
cp "$SRC/demo_test.go" "$dir/zz_seed_demo_test.go"
rc_with=$(run_demo /tmp/seedwt/$NAME.with.log)
pristine; cp "$SRC/demo_test.go" "$dir/zz_seed_demo_test.go"
rc_without=$(run_demo /tmp/seedwt/$NAME.without.log)
pristine
# existing suite with the patch
apply
pkgs=$(git diff --name-only | xargs -n1 dirname | sort -u | sed 's|^|./|' | paste -sd' ')
unshare -n sh -c "$NETNS cd $WT && go test -count=1 -timeout 25m $pkgs" > /tmp/seedwt/$NAME.suite.log 2>&1
suite_rc=$?
fails=$(grep -E '^\s*--- FAIL' /tmp/seedwt/$NAME.suite.log | awk '{print $3}' | sort -u | paste -sd',')
cat > "$SRC/confirm.json" <<J
{"name":"$NAME","head":"$(git -C /repo rev-parse --short HEAD)","patch_applies":$applies,"builds":$builds,"demo_dir":"$dir","demo_tags":"$tags","demo_tests":"$runre",
 "demo_rc_with_patch":$rc_with,"demo_rc_without_patch":$rc_without,"suite_packages":"$pkgs","suite_rc":$suite_rc,"suite_failed_tests":"$fails"}
J
cat "$SRC/confirm.json"
