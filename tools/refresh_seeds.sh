#!/bin/bash
# Re-bases every seeded patch on /repo's current HEAD so that `git -C /repo apply` works.
export GOFLAGS=-mod=mod GOPROXY=off GOSUMDB=off GOTOOLCHAIN=local
head=$(git -C /repo rev-parse --short HEAD)
for d in /verif/seeded/*/; do
  n=$(basename $d)
  if git -C /repo apply --check "$d/patch.diff" 2>/dev/null; then echo "$n applies"; continue; fi
  W=$(mktemp -d /tmp/seedrb.XXXXXX)
  git -C /repo worktree add --detach "$W/wt" HEAD >/dev/null 2>&1
  [ -f "$d/patch.orig.diff" ] || cp "$d/patch.diff" "$d/patch.orig.diff"
  if (cd "$W/wt" && patch -s -p1 --no-backup-if-mismatch -F3 < "$d/patch.orig.diff" >/dev/null 2>&1); then
    (cd "$W/wt" && git diff > "$d/patch.diff")
    if (cd "$W/wt" && go build ./... >/dev/null 2>&1); then echo "$n rebased on $head (builds)"; else echo "$n rebased on $head BUT DOES NOT BUILD"; fi
  else
    echo "$n DOES NOT APPLY to $head"
  fi
  git -C /repo worktree remove --force "$W/wt" >/dev/null 2>&1; rm -rf "$W"
done
git -C /repo worktree prune
