#!/bin/bash
# thorough tier of the generators added in round 5 (development aid)
for spec in "C18 client|udpclient" "C19 client" "C07 clientstop" "C05 clientstop" "C03 registrations|engine" "C04 ioerr" "C17 udp|sessions" "C12 connpeek|buffers" "C08 datagrams"; do
  set -- $spec
  t0=$(date +%s)
  out=$(./check $1 --tier thorough --only "$2" 2>/tmp/thorough_new.$1.err | grep -E "^(OK|VIOLATION|INCONCLUSIVE|KNOWN)" | tr '\n' ' ' | cut -c1-300)
  echo "$1 [$2] wall=$(( $(date +%s) - t0 ))s :: $out"
done
