#!/bin/sh
# usage: tools/mutant.sh <patch.diff|-R:commit> <ID> [check args...]
# Applies a patch to a scratch copy of /repo and runs ./check against it.
set -e
P="$1"; ID="$2"; shift 2
D=$(mktemp -d /tmp/mrepo.XXXXXX)
trap 'rm -rf "$D"' EXIT
rsync -a --exclude .git /repo/ "$D"/
case "$P" in
  -R:*) git -C /repo show "${P#-R:}" | (cd "$D" && patch -s -R -p1) ;;
  *) (cd "$D" && patch -s -p1 --no-backup-if-mismatch < "$P") ;;
esac
cd /verif
VERIF_EVIDENCE_DIR="$D/.evidence" VERIF_REPLAY_DIR="$D/.replays" VERIF_REPO="$D" ./check "$ID" "$@" > "$D/.out" 2>&1 || true
grep -v '^\s*$' "$D/.out" | grep -E "VERIF-KEY|history|INFRA|panic|data race inside" | head -10
grep -E "^(VIOLATION|KNOWN|OK property|INCONCLUSIVE)" "$D/.out" | head -6
