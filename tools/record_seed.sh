#!/bin/bash
# usage: tools/record_seed.sh <srcdir> <NAME> <property> <check> [note]
# Runs the seeded change in <srcdir> against <check> (quick tier) and keeps it under seeded/<NAME>
# with the first violation key as "caught_by" (or MISSED).
src="$1"; name="$2"; prop="$3"; chk="$4"; note="${5:-}"
[ -f "$src/confirm.json" ] || { echo "$name: not confirmed yet"; exit 1; }
out=$(/verif/tools/mutant.sh "$src/patch.diff" "$chk" 2>&1)
if echo "$out" | grep -q '^VIOLATION'; then
  key=$(echo "$out" | grep -o 'VERIF-KEY:[a-z0-9-]*' | head -1)
  first=$(echo "$out" | grep -m1 'VERIF-KEY\|panic\|data race inside' | sed 's/^.*\(VERIF-KEY\|panic\|data race inside\)/\1/' | cut -c1-220)
  caught="$chk quick: $first"
else
  caught="MISSED"
fi
python3 /verif/tools/keep_seed.py "$src" "$name" "$prop" "$caught" "$note"
echo "$name -> $caught" | cut -c1-300
