#!/bin/bash
# usage: tools/seed_matrix_par.sh <streams> [property ids...]  - like seed_matrix.sh, in parallel streams;
# rewrites the lines of the given properties in seeded/MATRIX.txt (all properties when none is given)
streams=${1:-4}; shift
props="$@"
tmp=$(mktemp -d /tmp/matrix.XXXXXX)
i=0
for d in /verif/seeded/C*/; do
  n=$(basename $d); id=${n%%-*}
  if [ -n "$props" ] && ! echo " $props " | grep -q " $id "; then continue; fi
  checks="$id"
  case $n in C03-B) checks="C02";; C01-B) checks="C01 C12";; C12-B) checks="C12 C10 C11";; C05-B) checks="C05 C04";; C07-B) checks="C07 C04";; C10-A) checks="C10 C11";; C10-B) checks="C10 C09";; C15-E) checks="C14";; C18-G) checks="C04 C07";; C17-B) continue;; esac
  for c in $checks; do echo "$n $c" >> $tmp/jobs.$((i % streams)); i=$((i+1)); done
done
for s in $(seq 0 $((streams-1))); do
  ( [ -f $tmp/jobs.$s ] && while read n c; do
      r=$(/verif/tools/mutant.sh /verif/seeded/$n/patch.diff $c 2>&1 | grep -E "^(VIOLATION|OK|INCONCLUSIVE)" | head -1 | awk '{print $1}')
      echo "$n  check=$c  $r" >> $tmp/out.$s
    done < $tmp/jobs.$s ) &
done
wait
cat $tmp/out.* | sort > $tmp/new
out=/verif/seeded/MATRIX.txt
if [ -n "$props" ]; then
  keep=$(mktemp); cp $out $keep
  for p in $props; do grep -v "^$p-" $keep > $keep.2; mv $keep.2 $keep; done
  cat $keep $tmp/new | sort > $out; rm -f $keep
else
  cp $tmp/new $out
fi
grep -v VIOLATION $tmp/new
rm -rf $tmp
