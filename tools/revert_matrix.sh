#!/bin/bash
# For every "fixed:" line of known_findings.txt: take the repair out of a scratch copy of /repo
# (reverse patch of the fix commit) and run the property's quick check: the defect must be reported again.
out=/verif/seeded/REVERTS.txt
: > $out.tmp
grep '^fixed:' /verif/known_findings.txt | while read -r _ prop commit rest; do
  id=${prop#property=}
  r=$(/verif/tools/mutant.sh -R:$commit $id 2>&1)
  if echo "$r" | grep -q "^VIOLATION"; then k=VIOLATION; key=$(echo "$r" | grep -o 'VERIF-KEY:[a-z0-9-]*\|panic\|data race inside' | head -1)
  elif echo "$r" | grep -q "^OK"; then k=OK; key=""
  else k=$(echo "$r" | grep -E "^(INCONCLUSIVE)" | head -1 | awk '{print $1}'); key=$(echo "$r" | tail -2 | tr '\n' ' ' | cut -c1-120); fi
  echo "$id  fix=$commit  reverted -> ${k:-ERROR}  $key" | tee -a $out.tmp
done
mv $out.tmp $out
