#!/usr/bin/env python3
"""Regenerates /verif/MANIFEST.json from specs.py (+ manifest_text.py)."""
import json, os, sys
V = os.path.dirname(os.path.dirname(os.path.abspath(__file__)))
sys.path.insert(0, V)
import specs, manifest_text as mt

props = [json.loads(l)["id"] for l in open(os.path.join(V, "properties.jsonl"))]
checks = []
for pid in props:
    if pid not in specs.SPECS or pid in mt.NOT_CLAIMED:
        continue
    s = specs.SPECS[pid]
    checks.append(dict(
        property_id=pid,
        quick_cmd="./check %s --tier quick" % pid,
        thorough_cmd="./check %s --tier thorough" % pid,
        evidence_file="/verif/evidence/%s.json" % pid,
        replay_cmd_template="./check %s --replay {path}" % pid,
        engine="check",
        level_claimed=dict(category=s["level"], text=mt.LEVEL_TEXT[pid], design_ref=mt.DESIGN_REF.get(pid, "DESIGN.md section 3, " + pid)),
        level_note=mt.LEVEL_NOTE[pid],
        technique=s["technique"],
    ))
na = [dict(property_id=p, reason=mt.NOT_CLAIMED.get(p, "check not built yet (planned, DESIGN.md section 3); nothing is claimed for it at this commit"))
      for p in props if p not in [c["property_id"] for c in checks]]
m = dict(
    version=1,
    setup_cmd="./setup.sh",
    hooks=dict(
        guard="none (no hooks are committed to /repo: every check copies /repo's working tree into a scratch directory, adds the harness packages of /verif/overlay and, where needed, rewrites call qualifiers there; see DESIGN.md 2.1)",
        enable="./check <ID> stages /repo + /verif/overlay under $TMPDIR and builds with `go test -c` (tags '', poll_opt, gc_opt, poll_opt,gc_opt as listed per job in specs.py)",
        baseline_off_cmd="cd /repo && GOFLAGS=-mod=mod GOPROXY=off GOSUMDB=off GOTOOLCHAIN=local go test -vet=off -count=1 -timeout 25m ./...",
        source_commits=[],
        add_only=True,
    ),
    engines=[dict(name="check", path="/verif/check", serves_properties=[c["property_id"] for c in checks],
                  kind_free_text="python driver: staging + go test -c harness binaries (pgregory.net/rapid state machines, sharded exhaustive sweeps, native fuzz targets) + evidence merge")],
    checks=checks,
    notes=mt.NOTES,
    not_applicable=na,
)
json.dump(m, open(os.path.join(V, "MANIFEST.json"), "w"), indent=1)
print("claimed:", [c["property_id"] for c in checks])
print("not claimed:", [n["property_id"] for n in na])
