"""Per-property job tables for /verif/check.

A spec has: level, technique, rule, assumptions, overlay (paths under
/verif/overlay to copy into the staged tree), modules (extra go.mod requires),
instrument (argument lists for tools/instr), jobs.
A job: name, pkg, tags, race, thorough_only, tests.
A test: id, run (regex), rapid (default True), quick / thorough parameter dicts:
  shards, checks (rapid cases per shard), timeout (s), shrinktime (s), env.
"""

SPECS = {}

TAGSETS_QUICK = ["", "poll_opt,gc_opt"]
TAGSETS_ALL = ["", "poll_opt", "gc_opt", "poll_opt,gc_opt"]


def tagname(t):
    return t.replace(",", "+") if t else "default"


# ---------------------------------------------------------------------------
SPECS["C20"] = dict(
    level="exploration",
    technique="property-based testing against loop-based reference functions (rapid) + sharded exhaustive sweep of the 32-bit domain",
    rule="cases are ints n (boundary table 2^k+d for k=0..62,d=-3..3; rapid-drawn 64-bit values; thorough: every int32) "
         "fed to Ceil/Floor/Closest/IsPowerOfTwo, sizes 1..2^31 fed to the byte-slice size-class function, "
         "(fd,loop,row,col) tuples packed into a GFD; non-trivial = n within 3 of a power of two or above 2^32 "
         "(GFD: fd above 2^32 or a field using its upper half); distinct = distinct n / tuple",
    assumptions=["64-bit int", "the loop-based reference functions in c20_test.go are correct (they are re-validated against each other at every power-of-two crossing of the sweep)"],
    exhaustive_note="thorough tier: CeilToPowerOfTwo/FloorToPowerOfTwo/ClosestPowerOfTwo/IsPowerOfTwo are evaluated on every value of the signed 32-bit range and the byte-slice index on every size 1..2^31; 64-bit values are sampled",
    overlay=["verifx/c20", "pkg/pool/byteslice/zz_verif_c20_test.go", "pkg/pool/ringbuffer/zz_verif_c20_test.go"],
    jobs=[
        dict(name="c20", pkg="./verifx/c20", tests=[
            dict(id="boundaries", run="^TestC20Boundaries$", rapid=False, quick=dict(timeout=60), thorough=dict(timeout=60)),
            dict(id="random", run="^TestC20Random$", quick=dict(shards=4, checks=250000, timeout=120),
                 thorough=dict(shards=16, checks=2000000, timeout=900)),
            dict(id="sweep32", run="^TestC20Sweep32$", rapid=False, quick=dict(shards=3, timeout=120),
                 thorough=dict(shards=16, timeout=900)),
            dict(id="gfd", run="^TestC20GFD$", quick=dict(shards=2, checks=100000, timeout=120),
                 thorough=dict(shards=8, checks=1000000, timeout=600)),
        ]),
        dict(name="c20-bs", pkg="./pkg/pool/byteslice", tests=[
            dict(id="bsindex", run="^TestC20BytesliceIndex$", quick=dict(checks=100000, timeout=60),
                 thorough=dict(shards=4, checks=1000000, timeout=300)),
            dict(id="bssweep", run="^TestC20BytesliceIndexSweep$", rapid=False, quick=dict(shards=2, timeout=60),
                 thorough=dict(shards=16, timeout=600)),
        ]),
        dict(name="c20-rb", pkg="./pkg/pool/ringbuffer", tests=[
            dict(id="rbindex", run="^TestC20RingPoolIndex$", quick=dict(checks=50000, timeout=60),
                 thorough=dict(shards=2, checks=500000, timeout=300)),
        ]),
    ],
)

# ---------------------------------------------------------------------------
BUF_ASSUME = ["scripted readers/writers stay within the io.Reader/io.Writer contracts (a writer reports an error whenever it accepts fewer bytes than offered; counts are never negative or larger than offered; a reader may use all of p as scratch space)",
              "the byte-slice reference model in the harness is correct"]

SPECS["C09"] = dict(
    level="exploration",
    technique="stateful property-based testing (rapid state machine) of ring.Buffer against a byte-slice reference model with scripted readers/writers",
    rule="a case is a generated operation sequence (Write/WriteString/WriteByte/Read/ReadByte/Peek/Discard/Bytes/ReadFrom/WriteTo/Reset with boundary-biased sizes) "
         "from New(n), n in {0,1,2,3,4,8,16,64,1023,1024,4095,4096,4097,5000}; content, counters and flags are compared with the model after every step; "
         "non-trivial = the sequence made the buffer wrap (Peek returned a tail), grow, or become exactly full; distinct = distinct operation history",
    assumptions=BUF_ASSUME,
    overlay=["verifx/c09", "verifx/vio", "verifx/ringm"],
    jobs=[
        dict(name="c09-fuzz", pkg="./verifx/c09", fuzz="FuzzC09Ring", thorough_only=True, tests=[
            dict(id="fuzz", run="^FuzzC09Ring$", fuzz=True, thorough=dict(fuzztime=90, workers=8, timeout=400)),
        ]),
        dict(name="c09", pkg="./verifx/c09", tests=[
            dict(id="machine", run="^TestC09Machine$", quick=dict(shards=10, checks=12000, timeout=240, steps=40),
                 thorough=dict(shards=16, checks=60000, timeout=1500, steps=60, shrinktime=120)),
            dict(id="small", run="^TestC09Small$", quick=dict(shards=6, checks=15000, timeout=240, steps=40),
                 thorough=dict(shards=8, checks=60000, timeout=1500, steps=60, shrinktime=120)),
        ]),
    ],
)

SPECS["C11"] = dict(
    level="exploration",
    technique="stateful property-based testing (rapid state machine) of linkedlist.Buffer against a list-of-segments reference model with scripted readers/writers",
    rule="a case is a generated operation sequence over PushBack/PushFront/Append/Pop/Read/Peek/PeekWithBytes/Discard/ReadFrom/WriteTo/Reset "
         "(segment sizes biased to 0,1,3,511-513,1000,4097; read sizes biased to segment boundaries); content (Peek of everything), Buffered, Len and IsEmpty are compared "
         "with the model after every step, pushed slices are overwritten after the call (copy semantics); non-trivial = a Read/Discard/WriteTo ended inside a segment; "
         "distinct = distinct operation history",
    assumptions=BUF_ASSUME + ["Len counts one segment per push and one per reader call that returned bytes (segment boundaries are observable through Pop)"],
    overlay=["verifx/c11", "verifx/vio"],
    jobs=[
        dict(name="c11-fuzz", pkg="./verifx/c11", fuzz="FuzzC11List", thorough_only=True, tests=[
            dict(id="fuzz", run="^FuzzC11List$", fuzz=True, thorough=dict(fuzztime=90, workers=8, timeout=400)),
        ]),
        dict(name="c11", pkg="./verifx/c11", tests=[
            dict(id="machine", run="^TestC11Machine$", quick=dict(shards=12, checks=12000, timeout=240, steps=40),
                 thorough=dict(shards=16, checks=120000, timeout=1500, steps=60, shrinktime=120)),
        ]),
    ],
)

SPECS["C10"] = dict(
    level="exploration",
    technique="stateful property-based testing (rapid state machines) of elastic.RingBuffer and elastic.Buffer against a byte-slice reference model with scripted readers/writers",
    rule="a case is a generated operation sequence: for the lazy ring wrapper the C09 alphabet plus Done; for the mixed buffer Write/Writev (0..3000 segments, empty ones included)/"
         "ReadFrom/Read/Peek/Discard/WriteTo/Reset/Release with maxStaticBytes in {1,64,1023,1024,1025,4096,65536} and sizes biased to the limit and the ring capacity; "
         "content (Peek of everything), Buffered and IsEmpty are compared with the model after every step; non-trivial = the ring-to-list switch-over happened "
         "(a whole Peek returned more than the two ring segments) or a partial Peek ended in the list part, resp. the ring wrapped/grew/was exactly full; distinct = distinct history",
    assumptions=BUF_ASSUME,
    overlay=["verifx/c10", "verifx/vio", "verifx/ringm"],
    jobs=[
        dict(name="c10-fuzz", pkg="./verifx/c10", fuzz="FuzzC10Mixed", thorough_only=True, tests=[
            dict(id="fuzz", run="^FuzzC10Mixed$", fuzz=True, thorough=dict(fuzztime=90, workers=8, timeout=400)),
        ]),
        dict(name="c10", pkg="./verifx/c10", tests=[
            dict(id="mixed", run="^TestC10Mixed$", quick=dict(shards=10, checks=6000, timeout=300, steps=40),
                 thorough=dict(shards=16, checks=60000, timeout=1800, steps=60, shrinktime=120)),
            dict(id="lazyring", run="^TestC10LazyRing$", quick=dict(shards=6, checks=8000, timeout=300, steps=40),
                 thorough=dict(shards=8, checks=60000, timeout=1800, steps=60, shrinktime=120)),
        ]),
    ],
)

SPECS["C12"] = dict(
    level="exploration",
    technique="stateful property-based testing (rapid) of the byte-slice and ring-buffer pools against a memory-range ownership ledger with canaries; concurrent variant with generated worker scripts; engine sessions with application-held pool slices",
    rule="a case is a generated sequence of Get(size)/Put(exact)/Put(re-sliced tail while the head stays owned)/Put(foreign odd-capacity slice carved from a canary-filled arena)/"
         "Put(empty)/runtime.GC on a fresh Pool or the global pool (sizes 0..2^20 biased to 2^k+-2), a generated multi-goroutine Get/Put script, a mixed ring-pool/byte-slice-pool "
         "sequence with ring writes that force growth (global pool or a pool of its own, with 42001-return bursts that make the pool calibrate itself), or an engine session whose handlers run generated Peek/Discard/Next/Read patterns over shaped arrivals while the application holds canary-filled pool slices of the same size classes; after every step all handed-out ranges are pairwise disjoint, inside what was returned, and their canaries intact; "
         "non-trivial = some Get was served from recycled memory (address seen before); distinct = distinct history/script",
    assumptions=["the harness keeps every slice it ever saw reachable, so the allocator cannot legitimately reuse an address", "sizes above 2^20 are covered arithmetically by C20, not by allocation"],
    overlay=["verifx/c12", "verifx/vio", "verifx/fx"],
    jobs=[
        dict(name="c12", pkg="./verifx/c12", tests=[
            dict(id="fresh", run="^TestC12ByteSliceFresh$", quick=dict(shards=6, checks=2500, timeout=300, steps=40, env={"GOMAXPROCS": 2}),
                 thorough=dict(shards=8, checks=60000, timeout=1800, steps=60, env={"GOMAXPROCS": 2})),
            dict(id="global", run="^TestC12ByteSliceGlobal$", quick=dict(shards=3, checks=1500, timeout=300, steps=40, env={"GOMAXPROCS": 2}),
                 thorough=dict(shards=4, checks=40000, timeout=1800, steps=60, env={"GOMAXPROCS": 2})),
            dict(id="concurrent", run="^TestC12Concurrent$", quick=dict(shards=2, checks=300, timeout=300),
                 thorough=dict(shards=2, checks=6000, timeout=1800)),
            dict(id="buffers", run="^TestC12BuffersShareThePools$", quick=dict(shards=3, checks=3000, timeout=300, steps=50, env={"GOMAXPROCS": 2}),
                 thorough=dict(shards=6, checks=50000, timeout=1800, steps=80, env={"GOMAXPROCS": 2})),
            dict(id="ringpool", run="^TestC12RingPool$", quick=dict(shards=4, checks=2000, timeout=300, steps=40, env={"GOMAXPROCS": 2}),
                 thorough=dict(shards=6, checks=40000, timeout=1800, steps=60, env={"GOMAXPROCS": 2})),
            dict(id="connpeek", run="^TestC12ConnPeekAndPools$", quick=dict(shards=4, checks=250, timeout=600, shrinktime=20),
                 thorough=dict(shards=8, checks=12000, timeout=3400, shrinktime=120)),
            dict(id="zones", run="^TestC12ZoneStringsAndThePool$", quick=dict(shards=2, checks=3000, timeout=300, env={"GOMAXPROCS": 2}),
                 thorough=dict(shards=4, checks=100000, timeout=1800, env={"GOMAXPROCS": 2})),
        ]),
    ],
)

ROOT_OVERLAY = ["zz_verif_c14_test.go", "zz_verif_c14_map_test.go", "zz_verif_c14_matrix_test.go", "zz_verif_c16_test.go", "zz_verif_c15_test.go"]

SPECS["C14"] = dict(
    level="exploration",
    technique="stateful property-based testing (rapid state machine) of both connection registries (map; gc_opt matrix) against a Go map reference model",
    rule="a case is a generated sequence of add(fd)/del(random|first|last|middle)/get(live or dead fd)/iterate/iterate-and-delete-all over distinct descriptor numbers "
         "(small, up to 70000, up to 2^31, and just-removed numbers), plus bulk populations of 65534..69536 entries that cross the matrix row boundary; after every step lookups of live "
         "and recently removed descriptors, the count and (matrix) every live connection's stored position are compared with the model; "
         "non-trivial = a non-last entry was deleted while other entries were live (relocation), resp. the population crossed the row boundary; distinct = distinct history",
    assumptions=["descriptor numbers are distinct among live connections (the kernel guarantees it)", "bare conn values (only fd set) stand in for connections"],
    overlay=ROOT_OVERLAY,
    jobs=[
        dict(name="c14-" + tagname(tg), pkg=".", tags=tg, tests=[
            dict(id="registry", run="^TestC14Registry$", quick=dict(shards=4, checks=1500, timeout=300, steps=40),
                 thorough=dict(shards=8, checks=25000, timeout=1800, steps=60)),
            dict(id="rowboundary", run="^TestC14RowBoundary$", quick=dict(shards=4, checks=12, timeout=300),
                 thorough=dict(shards=4, checks=150, timeout=1800)),
        ]) for tg in ["", "gc_opt"]
    ],
)

SPECS["C16"] = dict(
    level="exploration",
    technique="property-based testing (rapid): grammar-generated well-formed and ill-formed addresses against an as-written oracle, arbitrary strings against totality/validity predicates, generated option values against a reference normaliser; native fuzz target in the thorough tier",
    rule="cases: (a) scheme (any letter case) x host {name, IPv4, [IPv6], [IPv6%zone] incl. '%' in zones, empty} x port, or unix paths (absolute/relative, './..//' segments, '%', spaces, non-ASCII); "
         "(b) ill-formed: no scheme, unknown scheme, empty endpoint, path on tcp/udp; (c) arbitrary strings (rapid.String, URL-ish token soup); (d) option ints at <=0, 1, 1020..1030, 2^k+-2 up to 2^62 through "
         "createListeners and NewClient; non-trivial = address containing '%' or a bracketed literal, or ill-formed, or an accepted arbitrary string, resp. a request that is not already a power of two / a chunk / more than 256 loops; distinct = distinct input",
    assumptions=["'?' and '#' are not generated inside well-formed unix paths (URL syntax gives them another meaning)", "option values above 2^62 are outside the domain (no power of two fits an int)"],
    overlay=ROOT_OVERLAY,
    jobs=[
        dict(name="c16-fuzz", pkg=".", fuzz="FuzzC16Parse", thorough_only=True, tests=[
            dict(id="fuzz", run="^FuzzC16Parse$", fuzz=True, thorough=dict(fuzztime=90, workers=8, timeout=400)),
        ]),
        dict(name="c16", pkg=".", tests=[
            dict(id="wellformed", run="^TestC16ParseWellFormed$", quick=dict(shards=4, checks=40000, timeout=300), thorough=dict(shards=8, checks=500000, timeout=1500)),
            dict(id="illformed", run="^TestC16ParseIllFormed$", quick=dict(shards=2, checks=30000, timeout=300), thorough=dict(shards=4, checks=300000, timeout=1500)),
            dict(id="arbitrary", run="^TestC16ParseArbitrary$", quick=dict(shards=4, checks=40000, timeout=300), thorough=dict(shards=8, checks=500000, timeout=1500)),
            dict(id="options", run="^TestC16Options$", quick=dict(shards=2, checks=3000, timeout=300), thorough=dict(shards=4, checks=40000, timeout=1500)),
        ]),
    ],
)

FX_OVERLAY_EARLY = ["verifx/fx", "verifx/vio"]

SPECS["C15"] = dict(
    level="exploration",
    technique="property-based testing (rapid): generated accept/close histories on each load balancer over bare event loops, checked against the policy's definition; engine-level sessions check that the assigned loop is the loop that runs the callbacks",
    rule="a case is a policy (RR/LC/SAH), 1..256 loops and a generated history of next(addr)/close/open-elsewhere operations with addresses from IPv4, IPv6 with zones, Unix paths, empty names and arbitrary strings; "
         "oracle: RR i-th call -> loop i mod N, LC returned loop has minimal count at call time, SAH same address string -> same loop, always a registered loop; "
         "non-trivial = N >= 2 and >= 2N accepts; distinct = distinct (policy, N, history)",
    assumptions=["bare eventloop values with an initialised registry stand in for loops in the policy half"],
    overlay=ROOT_OVERLAY + ["verifx/c15"] + FX_OVERLAY_EARLY,
    jobs=[
        dict(name="c15", pkg=".", tests=[
            dict(id="policy", run="^TestC15Policy$", quick=dict(shards=4, checks=1500, timeout=300), thorough=dict(shards=8, checks=25000, timeout=1500)),
        ]),
    ] + [dict(name="c15s-" + tagname(tg), pkg="./verifx/c15", tags=tg, tests=[
            dict(id="sessions", run="^TestC15Sessions$", quick=dict(shards=3, checks=60, timeout=600, shrinktime=30), thorough=dict(shards=4, checks=2500, timeout=3000, shrinktime=300)),
        ]) for tg in ["", "poll_opt,gc_opt"]],
)

SPECS["C17"] = dict(
    level="exploration",
    technique="property-based testing (rapid): round-trip of generated addresses through the kernel socket-address form; engine-level sessions compare reported addresses with the peers' own",
    rule="a case is an IP (4-byte, 16-byte v4-mapped, random IPv6, IPv6 built group-wise from boundary values - exact and near-miss special prefixes -, link-local, well-known) x port 0..65535 x zone ('', existing interface names, interface indices, other numbers up to 0xFFFFFE) x tcp/udp x entry point; "
         "or an invalid one (IP of 0..20 bytes except 4/16, unsupported Unix network, unknown net.Addr type) which must yield nil without panic; or a Unix path; "
         "non-trivial = IPv6 address with non-empty zone, or an invalid input; distinct = distinct input",
    assumptions=["zone names that are neither an existing interface nor a decimal number have no kernel representation and are not generated", "numeric zones are generated in canonical decimal form below 0xFFFFFF (the parser's cap)"],
    overlay=["verifx/c17"] + FX_OVERLAY_EARLY,
    jobs=[
        dict(name="c17conv", pkg="./verifx/c17", tests=[
            dict(id="zones", run="^TestC17ZoneRecycling$", quick=dict(shards=1, checks=60, timeout=300), thorough=dict(shards=2, checks=2000, timeout=1200)),
            dict(id="sessions", run="^TestC17Sessions$", quick=dict(shards=4, checks=40, timeout=600, shrinktime=30), thorough=dict(shards=6, checks=1500, timeout=3400, shrinktime=300)),
            dict(id="conversion", run="^TestC17Conversion$", quick=dict(shards=4, checks=15000, timeout=300), thorough=dict(shards=8, checks=250000, timeout=1500)),
            dict(id="invalid", run="^TestC17Invalid$", quick=dict(shards=2, checks=15000, timeout=300), thorough=dict(shards=4, checks=150000, timeout=1500)),
            dict(id="udp", run="^TestC17UDP$", quick=dict(shards=2, checks=150, timeout=600, shrinktime=30), thorough=dict(shards=4, checks=5000, timeout=3400, shrinktime=300)),
        ]),
        dict(name="c17-poll_opt", pkg="./verifx/c17", tags="poll_opt", tests=[
            dict(id="sessions", run="^TestC17Sessions$", quick=dict(shards=3, checks=40, timeout=600, shrinktime=30), thorough=dict(shards=4, checks=1500, timeout=3400, shrinktime=300)),
            dict(id="udp", run="^TestC17UDP$", quick=dict(shards=2, checks=150, timeout=600, shrinktime=30), thorough=dict(shards=4, checks=5000, timeout=3400, shrinktime=300)),
        ]),
    ],
)

VSCHED_OVERLAY = ["internal/vsched"]
VATOMIC = "atomic.*=github.com/panjf2000/gnet/v2/internal/vsched/vatomic"
VUNIX = "unix.Write=github.com/panjf2000/gnet/v2/internal/vsched/vunix,unix.Read=github.com/panjf2000/gnet/v2/internal/vsched/vunix,unix.EpollWait=github.com/panjf2000/gnet/v2/internal/vsched/vunix"

SPECS["C13"] = dict(
    level="exploration",
    technique="schedule-generating property-based testing: the real queue code runs under a harness-owned cooperative scheduler (one step = one atomic operation), schedules drawn by rapid (random walk, PCT) or enumerated up to a pre-emption bound; histories checked by the porcupine linearizability checker against a sequential FIFO model",
    rule="a case is a script (2..4 threads x 1..5 Enqueue/Dequeue operations) plus a schedule over the queue's atomic loads/CASes/adds; oracle: porcupine linearizability w.r.t. a FIFO queue in which Dequeue answers 'empty' only when empty, "
         "never-invented tasks, and at quiescence Length/IsEmpty = remaining tasks, draining returns each remaining task once in per-producer order; non-trivial = two operations of different threads overlapped in (logical) time and one was a Dequeue; "
         "distinct = distinct call/return event sequence. Supplement: real-goroutine stress (exactly-once, per-producer order, quiescent Length).",
    assumptions=["every shared-memory access of the queue goes through sync/atomic function calls (which the instrumenter rewrites); plain accesses would not be scheduling points", "porcupine v1.3.0 is a correct linearizability checker"],
    overlay=["verifx/c13"] + VSCHED_OVERLAY,
    modules=["github.com/anishathalye/porcupine@v1.3.0"],
    instrument=[["-map", VATOMIC, "pkg/queue/lock_free_queue.go", "pkg/queue/queue.go"]],
    jobs=[
        dict(name="c13", pkg="./verifx/c13", tests=[
            dict(id="scheduled", run="^TestC13Scheduled$", quick=dict(shards=12, checks=12000, timeout=300), thorough=dict(shards=16, checks=500000, timeout=2400, shrinktime=120)),
            dict(id="exhaustive", run="^TestC13Exhaustive$", rapid=False, quick=dict(shards=4, timeout=300), thorough=dict(shards=16, timeout=2400)),
        ]),
        dict(name="c13-race", pkg="./verifx/c13", race=True, tests=[
            dict(id="stress", run="^TestC13Stress$", quick=dict(shards=2, checks=60, timeout=300), thorough=dict(shards=4, checks=1500, timeout=2400)),
        ]),
    ],
)

POLLER_INSTR = [
    ["-map", VATOMIC, "pkg/queue/lock_free_queue.go", "pkg/queue/queue.go"],
    ["-map", VATOMIC + "," + VUNIX, "pkg/netpoll/poller_epoll_default.go"],
    ["-map", VATOMIC + "," + VUNIX, "-ident", "epollWait=vEpollWait", "pkg/netpoll/poller_epoll_ultimate.go"],
]

SPECS["C03"] = dict(
    level="exploration",
    technique="schedule-generating property-based testing of the real poller (Trigger/Polling, both epoll variants) under a harness-owned cooperative scheduler with quiescence detection; engine-level generated request scripts with an exactly-once oracle",
    rule="layer A: a case is 1..4 producer threads x 1..6 Trigger calls (drawn priorities; some cases preload 1020..1030 urgent and up to 300 low-priority tasks) plus a schedule over every atomic operation, queue step and eventfd/epoll system call "
         "(random walk, PCT with 1..3 priority-change points, or a random walk in which one producer, after its k-th step inside Trigger, stands still until every other thread is blocked; bounded-exhaustive with <= 3 (thorough 4..5) pre-emptions for the smallest configurations); at quiescence (loop parked in epoll_wait, nothing ready) every accepted task ran exactly once on the loop thread, "
         "high-priority tasks of one producer in issue order; non-trivial = some producer's wake-up CAS lost (it found the flag already set); distinct = distinct schedule",
    assumptions=["every shared access of poller and queue goes through sync/atomic function calls or the eventfd/epoll system calls (the instrumented scheduling points)", "kqueue pollers cannot run on Linux"],
    overlay=["verifx/c03", "pkg/netpoll/zz_verif_vsched_poll_opt.go", "verifx/fx", "verifx/vio"] + VSCHED_OVERLAY,
    instrument=POLLER_INSTR,
    jobs=[
        dict(name="c03a-" + tagname(tg), pkg="./verifx/c03", tags=tg, tests=[
            dict(id="scheduled", run="^TestC03WakeScheduled$", quick=dict(shards=6, checks=6000, timeout=400), thorough=dict(shards=8, checks=300000, timeout=3000, shrinktime=120)),
            dict(id="exhaustive", run="^TestC03WakeExhaustive$", rapid=False, quick=dict(shards=4, timeout=400), thorough=dict(shards=8, timeout=3000)),
        ]) for tg in ["", "poll_opt"]
    ] + [dict(name="c03b-" + tagname(tg), pkg="./verifx/c03", tags=tg, tests=[
            dict(id="engine", run="^TestC03AsyncEngine$", quick=dict(shards=3, checks=120, timeout=600, shrinktime=30), thorough=dict(shards=4, checks=5000, timeout=3000, shrinktime=300)),
            dict(id="bursts", run="^TestC03AsyncBursts$", quick=dict(shards=3, checks=40, timeout=600, shrinktime=20), thorough=dict(shards=4, checks=400, timeout=3000, shrinktime=60)),
            dict(id="storm", run="^TestC03ReadyStorm$", quick=dict(shards=2, checks=40, timeout=600, shrinktime=20), thorough=dict(shards=4, checks=300, timeout=3000, shrinktime=60)),
            dict(id="acrossclose", run="^TestC03CallbacksAcrossClose$", quick=dict(shards=2, checks=100, timeout=600, shrinktime=20), thorough=dict(shards=4, checks=4000, timeout=3000, shrinktime=60)),
            dict(id="registrations", run="^TestC03Registrations$", quick=dict(shards=2, checks=60, timeout=600, shrinktime=20), thorough=dict(shards=4, checks=1500, timeout=3000, shrinktime=60)),
        ]) for tg in ["", "poll_opt,gc_opt"]],
)

VSHIM = "github.com/panjf2000/gnet/v2/internal/vshim/vunix"
VSHIM_MAP = ",".join("unix.%s=%s" % (f, VSHIM) for f in ["Read", "Write", "Writev", "Close", "Accept4", "EpollCtl", "EpollWait", "Recvfrom", "Sendto", "Send"])
SHIM_INSTR = [
    ["-map", VSHIM_MAP, "connection_unix.go", "eventloop_unix.go", "acceptor_unix.go", "client_unix.go", "pkg/io/io_linux.go", "pkg/socket/sock_cloexec.go", "pkg/netpoll/poller_epoll_default.go"],
    ["-map", VSHIM_MAP, "-ident", "epollCtl=vEpollCtlF,epollWait=vEpollWaitF", "pkg/netpoll/poller_epoll_ultimate.go"],
]

SHIM_OVERLAY = ["internal/vshim", "pkg/netpoll/zz_verif_vshim_poll_opt.go"]
FX_OVERLAY = ["verifx/fx", "verifx/vio"]
ENGINE_ASSUME = ["loop-back TCP / Unix sockets on this machine; kernel segmentation is whatever the kernel does (the oracles hold for any segmentation)",
                 "a liveness clause is judged by the stall rule: no progress for 8 s on an otherwise idle engine, confirmed by re-running the same case"]

def engine_jobs(name, pkg, tests_quick_thorough, tagsets_quick=TAGSETS_QUICK, race=False):
    jobs = []
    for tg in TAGSETS_ALL:
        jobs.append(dict(name="%s-%s" % (name, tagname(tg)), pkg=pkg, tags=tg, race=race, thorough_only=(tg not in tagsets_quick), tests=tests_quick_thorough))
    return jobs

SPECS["C01"] = dict(
    level="exploration",
    technique="property-based testing of real engine sessions (rapid): generated peer segmentations and handler consumption scripts against a position-dependent stream-content oracle and a conservation invariant",
    rule="a case is one engine configuration (tcp4/tcp6/unix x server/client(dial|enroll) x LT/ET/ET+chunk x 1..8 loops x reactor/reuseport x buffer caps) with 1..4 connections, each with a generated peer script "
         "(segments of 1..262144 bytes around the read-buffer size, gaps none/lock-step/sleep, ending close / half-close / handler-close) and a cyclic handler script over Peek/Discard/Peek+Discard/Next/Read/WriteTo(scripted writer); "
         "inside every callback: buffered bytes = stream[consumed:], consumed+InboundBuffered is conserved by every operation, never decreases and never exceeds what the peer sent; at OnClose after an orderly close everything sent was consumed or readable; "
         "non-trivial = a connection on which a callback left bytes unconsumed that a later callback (with new data) saw (leftover/stitching path); distinct = distinct (configuration, connection script)",
    assumptions=ENGINE_ASSUME,
    overlay=["verifx/c01"] + FX_OVERLAY + SHIM_OVERLAY,
    instrument=SHIM_INSTR,
    max_parallel=12,
    jobs=engine_jobs("c01", "./verifx/c01", [
        dict(id="sessions", run="^TestC01Sessions$", quick=dict(shards=6, checks=400, timeout=400, shrinktime=30), thorough=dict(shards=4, checks=15000, timeout=3000, shrinktime=300)),
    ]),
)

SPECS["C02"] = dict(
    level="exploration",
    technique="property-based testing of real engine sessions (rapid): generated write-operation batches, external async producers and peer reading schedules against an effect-order stream oracle and OutboundBuffered bounds",
    rule="a case is one engine configuration (as C01 plus small socket send buffers and WriteBufferCap values) with 1..3 connections; per connection an optional OnOpen reply, 0..4 batches (triggered by peer commands) over "
         "Write/Writev(0..3000 slices incl. empty)/ReadFrom(scripted reader)+Flush/AsyncWrite/AsyncWritev/external producer goroutines, payloads 0..3 MiB around the ring and limit sizes, and a peer schedule of commands, reads (1 byte..1 MiB), pauses and "
         "'do not read until OutboundBuffered >= x'; oracle: what the peer receives equals the concatenation of accepted records in the order they took effect on the loop; inside callbacks 0 <= OutboundBuffered <= accepted - received by the peer and 0 once everything arrived; "
         "everything accepted arrives while the peer reads (stall rule); non-trivial = a connection on which OutboundBuffered > 0 was observed inside a callback (real back-pressure); distinct = distinct (configuration, connection script)",
    assumptions=ENGINE_ASSUME + ["async writes are always issued with a callback (the callback position defines when the write took effect)"],
    overlay=["verifx/c02"] + FX_OVERLAY + SHIM_OVERLAY,
    instrument=SHIM_INSTR,
    max_parallel=12,
    jobs=engine_jobs("c02", "./verifx/c02", [
        dict(id="sessions", run="^TestC02Sessions$", quick=dict(shards=6, checks=60, timeout=600, shrinktime=30), thorough=dict(shards=4, checks=2500, timeout=3400, shrinktime=300)),
    ]),
)

LIFE_OVERLAY = ["verifx/lifex"] + FX_OVERLAY

SPECS["C04"] = dict(
    level="exploration",
    technique="property-based testing of real engine sessions (rapid): generated connection histories with racing close causes, a second wave of connections re-using descriptor numbers and stale requests, judged by a life-cycle automaton over the recorded callback log",
    rule="a case is one engine configuration with 1..5 connection histories (OnOpen behaviour none/reply/Close action/Close()/EventLoop.Close; steps over peer data, peer close/reset/half-close, handler directives executed inside OnTraffic - Close action, Close(), CloseWithCallback, EventLoop.Close, Close() followed by a task that puts readable bait on the released descriptor number, write to a reset peer -, "
         "Wake/Close/CloseWithCallback/AsyncWrite from other goroutines, bursts of 2..3 causes fired concurrently; OnClose behaviour none/write/Close action), then 0..4 fresh connections that get the freed descriptor numbers, then stale Wake/Close/CloseWithCallback/AsyncWrite(v) on the closed ones; "
         "oracle: Open (Traffic)* Close per connection, Close iff Open, identity/loop/goroutine of every callback, OnClose error nil only with a local cause and non-nil only with a peer cause issued, stale async writes complete with net.ErrClosed, second-wave connections see no traffic, bytes or close they did not cause, "
         "CountConnections = opened - closed at quiescent points; non-trivial = a connection with a close requested from inside a callback or with concurrently fired causes; distinct = distinct (configuration, connection history)",
    assumptions=ENGINE_ASSUME,
    overlay=["verifx/c04"] + LIFE_OVERLAY + SHIM_OVERLAY,
    instrument=SHIM_INSTR,
    max_parallel=12,
    jobs=engine_jobs("c04", "./verifx/c04", [
        dict(id="lifecycle", run="^TestC04Lifecycle$", quick=dict(shards=6, checks=150, timeout=600, shrinktime=30), thorough=dict(shards=4, checks=6000, timeout=3400, shrinktime=300)),
        dict(id="ioerr", run="^TestC04IOErrorCause$", quick=dict(shards=2, checks=150, timeout=600, shrinktime=30), thorough=dict(shards=4, checks=5000, timeout=3400, shrinktime=120)),
        dict(id="loopexit", run="^TestC04LoopExit$", quick=dict(shards=2, checks=400, timeout=600, shrinktime=30), thorough=dict(shards=4, checks=4000, timeout=3400, shrinktime=120)),
        dict(id="clientudp", run="^TestC04ClientUDP$", quick=dict(shards=2, checks=150, timeout=600, shrinktime=30), thorough=dict(shards=4, checks=6000, timeout=3400, shrinktime=120)),
    ]),
)

SPECS["C07"] = dict(
    level="exploration",
    technique="property-based testing of real engine sessions (rapid): the C04 history generator plus Dup calls, judged by a before/after descriptor-table comparison, canary socket pairs placed on just-released descriptor numbers, surviving user-owned duplicates and the contents of the epoll sets; shutdown under a connect flood and under concurrent registrations",
    rule="a case is a C04 history (every close cause, closes from inside callbacks, racing causes, second wave, stale requests) with Conn.Dup / Engine.Dup calls, one engine start/stop per case; oracles: /proc/self/fd after Run/Client.Stop returned equals the table before (sockets, epoll, eventfd), "
         "Unix socket files are gone, descriptors returned by Dup are still open on the same object, and canary socket pairs placed on descriptor numbers right after the framework released them (on the loop goroutine after EventLoop.Close, inside a CloseWithCallback callback, by a task queued behind Conn.Close, by another goroutine after OnClose) were neither read, written nor closed by anyone else, and the socket of a closed connection that the user keeps alive through Conn.Dup is in no epoll set (/proc/self/fdinfo); "
         "second generator: 1..8 dialers connect continuously while Stop is requested after a drawn delay; third generator: 1..6 goroutines call Engine.Register / EventLoop.Enroll while Stop takes effect (every accepted call delivers exactly one result, the descriptor table returns to its state); non-trivial = a session with a close requested from inside a callback or racing causes; distinct = distinct case",
    assumptions=ENGINE_ASSUME + ["descriptor numbers are assigned lowest-free-first by the kernel, which is what puts a canary on a just-released number"],
    overlay=["verifx/c07", "verifx/clix"] + LIFE_OVERLAY + SHIM_OVERLAY,
    instrument=SHIM_INSTR,
    max_parallel=12,
    jobs=engine_jobs("c07", "./verifx/c07", [
        dict(id="histories", run="^TestC07Histories$", quick=dict(shards=5, checks=300, timeout=600, shrinktime=30), thorough=dict(shards=4, checks=8000, timeout=3400, shrinktime=300)),
        dict(id="flood", run="^TestC07ShutdownUnderConnects$", quick=dict(shards=1, checks=40, timeout=600, shrinktime=20), thorough=dict(shards=2, checks=1000, timeout=3400, shrinktime=120)),
        dict(id="regstop", run="^TestC07RegisterAtShutdown$", quick=dict(shards=1, checks=40, timeout=600, shrinktime=20), thorough=dict(shards=2, checks=1000, timeout=3400, shrinktime=120)),
        dict(id="failedstart", run="^TestC07FailedStart$", quick=dict(shards=1, checks=150, timeout=600, shrinktime=20), thorough=dict(shards=2, checks=5000, timeout=3400, shrinktime=120)),
        dict(id="clientstop", run="^TestC07ClientStop$", quick=dict(shards=3, checks=14, timeout=600, shrinktime=20), thorough=dict(shards=3, checks=300, timeout=3400, shrinktime=120)),
    ]),
)

SPECS["C06"] = dict(
    level="exploration",
    technique="property-based testing of real engine sessions (rapid): generated shutdown source, moment and concurrent activity, judged by completion/finality oracles over the callback record",
    rule="a case is one engine configuration (incl. Rotate with 2..3 listeners, ticker with a drawn interval and a drawn time spent inside OnTick) with 0..60 (thorough 200) idle connections, 0..3 connections whose peer keeps sending, 0..2 with megabytes of unsent output, "
         "0..4 goroutines connecting and 0..3 issuing AsyncWrite/Wake continuously; the shutdown source is Engine.Stop, package Stop, a Shutdown action from OnOpen/OnTraffic/OnClose/OnTick/a Wake-induced OnTraffic/an OnTraffic that has just closed its own connection (optionally every OnClose answers Shutdown once the shutdown is under way), OnBoot, or Client.Stop, requested after a drawn delay, optionally behind a backlog of 100..1500 queued async requests; "
         "oracle: Run/Rotate/Client.Stop returns nil within the bound, every connection that saw OnOpen saw exactly one OnClose by then, OnShutdown ran exactly once, no callback (incl. a still-running OnTick) is observed after the return, the listen address refuses connections; OnBoot: immediate return, nothing started; "
         "non-trivial = shutdown requested while a connection had unread/unsent data or connects were in flight; distinct = distinct case",
    assumptions=ENGINE_ASSUME,
    overlay=["verifx/c06"] + FX_OVERLAY,
    max_parallel=12,
    jobs=engine_jobs("c06", "./verifx/c06", [
        dict(id="shutdown", run="^TestC06Shutdown$", quick=dict(shards=6, checks=60, timeout=600, shrinktime=30), thorough=dict(shards=4, checks=3000, timeout=3400, shrinktime=300)),
    ]),
)

SPECS["C08"] = dict(
    level="exploration",
    technique="property-based testing of real UDP engine sessions (rapid): generated datagram sizes, sender concurrency and handler consumption/reply scripts against exact per-datagram oracles",
    rule="a case is a UDP listener (udp4, udp6 when ::1 exists; 1..4 loops; read buffer 1..64 KiB; default and poll_opt builds) with 1..6 sender sockets, each sending 1..12 self-describing datagrams of sizes from {0,1,2,7,8,9,100,1023,1471-1473,cap/2,cap-1,cap,40000,65506,65507} "
         "(windowed so that the kernel never drops; datagrams too short for a header one at a time), and a cyclic handler script per event: consume all/part/none/one byte, Write a reply (echo or generated payload), optionally SendTo a third socket; in raw cases the handler answers with exactly the peeked bytes (zero copy, possibly none) through Write or AsyncWrite before consuming them (address in 4- or 16-byte form); "
         "oracle: every OnTraffic offers exactly one sent datagram (length and bytes) with RemoteAddr = its sender, each datagram produces exactly one event, each Write exactly one reply datagram with exactly those bytes at exactly that sender, SendTo exactly one at the third socket, nobody receives anything else; "
         "non-trivial = an event that consumed only part/none of its datagram was followed by another event on the same loop; distinct = distinct case",
    assumptions=["loop-back UDP with a bounded in-flight volume does not drop datagrams (a missing reply within 3 s is therefore a lost event)", "payloads above the read-buffer size are outside the statement"],
    overlay=["verifx/c08"] + FX_OVERLAY,
    max_parallel=12,
    jobs=[dict(name="c08-" + tagname(tg), pkg="./verifx/c08", tags=tg, tests=[
        dict(id="datagrams", run="^TestC08Datagrams$", quick=dict(shards=6, checks=150, timeout=600, shrinktime=30), thorough=dict(shards=6, checks=4000, timeout=3400, shrinktime=300)),
    ]) for tg in ["", "poll_opt"]],
)

SPECS["C19"] = dict(
    level="exploration",
    technique="stateful property-based testing (rapid) of the control API against a state x call -> allowed-results table, with calls from several goroutines before start, while running, during shutdown and after it",
    rule="a case is a server configuration, calls on the zero-value handle, 1..4 goroutines each with up to 5 calls on the running engine (Validate, CountConnections, Dup, DupListener right/wrong, Register with conn / closed conn / address / unreachable address / nothing, "
         "EventLoop.Register/Enroll/Execute with nil and valid arguments), a shutdown requested by Stop with a live or an already expired context or by a connection registered through Engine.Register/EventLoop.Enroll whose OnOpen/OnClose answers Shutdown, 0..3 goroutines with calls fired right after the request (one connection may take 700 ms in OnClose), and calls after the shutdown; "
         "oracle: the allowed errors per state, CountConnections -1 outside the running state, one result per accepted Register/Enroll call - also when it was accepted while the engine was shutting down - that is a usable connection (a byte echoes) or an error, runnables run once, Stop(nil) only when every opened connection has been closed and OnShutdown ran, Stop(expired) returns the context error and Run still returns, a second Stop reports in-shutdown; "
         "non-trivial = a case with calls issued between the shutdown request and its completion; distinct = distinct case",
    assumptions=ENGINE_ASSUME + ["Engine.Register is not combined with Round-Robin load balancing (documented data race)", "client handles report the empty-engine error by construction and are not exercised here"],
    overlay=["verifx/c19", "verifx/clix"] + FX_OVERLAY + SHIM_OVERLAY,
    instrument=SHIM_INSTR,
    max_parallel=12,
    jobs=engine_jobs("c19", "./verifx/c19", [
        dict(id="control", run="^TestC19ControlAPI$", quick=dict(shards=8, checks=25, timeout=600, shrinktime=30), thorough=dict(shards=4, checks=2500, timeout=3400, shrinktime=300)),
        dict(id="client", run="^TestC19Client$", quick=dict(shards=4, checks=12, timeout=600, shrinktime=30), thorough=dict(shards=6, checks=300, timeout=3400, shrinktime=300)),
    ]),
)

SPECS["C05"] = dict(
    level="exploration",
    technique="property-based stress under the Go race detector (rapid): generated mixes of every concurrency-safe API call from several goroutines against live and already closed connections across engine stop; race reports and a per-loop goroutine/overlap record are the oracles",
    rule="a case is a server configuration with 2..8 loops, ticker on, 4..24 echo connections with ping-pong traffic, and 4..12 goroutines each issuing 10..40 drawn calls (AsyncWrite(v), Wake, Close, CloseWithCallback, SafeContext get/set, Fd, Dup, socket-option setters, EventLoop.Execute/Register/Enroll, Engine.CountConnections/Dup) "
         "on drawn connections (closed ones included), Engine.Stop after a drawn share of the work; oracle 1: every OnOpen/OnTraffic/OnClose, async callback and runnable of one loop runs on one goroutine, distinct loops on distinct goroutines, never two at once on a loop, a connection never changes loops; "
         "oracle 2: any race-detector report whose two stacks are inside the framework; non-trivial = at least two loops ran callbacks while at least two external goroutines were issuing calls; distinct = distinct case",
    assumptions=["the race detector judges only the executed schedules", "Engine.Register is not combined with Round-Robin", "socket-option setters are issued on connections as drawn (a stale descriptor number would only receive option changes)"],
    overlay=["verifx/c05", "verifx/clix", "internal/vshim"] + FX_OVERLAY,
    max_parallel=8,
    # -race switches on checkptr, which rejects the poll_opt poller's deliberately unaligned epoll_event.data
    # access (not a data race): checkptr is switched off for that tag set
    jobs=[dict(name="c05-" + tagname(tg), pkg="./verifx/c05", tags=tg, race=True, gcflags=("all=-d=checkptr=0" if "poll_opt" in tg else ""), tests=[
        dict(id="race", run="^TestC05RaceAndConfinement$", quick=dict(shards=4, checks=80, timeout=600, shrinktime=20, env={"GOMAXPROCS": 8}), thorough=dict(shards=8, checks=3000, timeout=3400, shrinktime=120, env={"GOMAXPROCS": 8})),
        dict(id="clientstop", run="^TestC05ClientStop$", quick=dict(shards=3, checks=8, timeout=600, shrinktime=5), thorough=dict(shards=4, checks=300, timeout=3400, shrinktime=30)),
        dict(id="poolchurn", run="^TestC05PoolChurnAcrossLoops$", quick=dict(shards=1, checks=5, timeout=600, shrinktime=5, env={"GOMAXPROCS": 8}), thorough=dict(shards=2, checks=30, timeout=3400, shrinktime=30, env={"GOMAXPROCS": 8})),
    ]) for tg in ["", "poll_opt,gc_opt"]],
)

SPECS["C18"] = dict(
    level="fault_enumeration",
    technique="fault injection by generated / enumerated plans through a system-call shim (unix.* call sites re-qualified at check time), with checked echo traffic on bystander connections and a descriptor ledger",
    rule="a case is a configuration (LT/ET x reactor/reuseport x tcp/unix), a fault (site = caller function x system call on the I/O path; errno from a realistic table; the k-th call on the victim's descriptor, k up to 2 quick / 8 thorough) and optionally a second fault, "
         "with 2..4 bystander connections carrying verified echo traffic (Write/Writev/AsyncWrite handlers); fatal faults (ECONNRESET/EPIPE/ETIMEDOUT/ENOTCONN on read/write/writev, ENOMEM/ENOSPC on epoll_ctl) must close exactly the victim with one OnClose carrying a non-nil error (none if never opened), "
         "transient ones (EAGAIN in LT mode, EINTR on epoll_wait, EINTR/ECONNABORTED/ECONNRESET on accept) must be invisible, failures of epoll_ctl DEL / close(2) while the victim is being closed change nothing else; afterwards a stale AsyncWrite on the victim completes with net.ErrClosed, a fresh connection echoes, "
         "bystanders echo exactly and saw no OnClose, no panic, and the ledger shows every accepted descriptor closed exactly once and no I/O on a closed one; datagram sites: the k-th recvfrom of the UDP listener / sendto of a reply fails while 1..4 senders run stop-and-wait (no panic, every sender still served, no datagram lost or duplicated by a failed recvfrom, a failed sendto reported to exactly the Write that made it); non-trivial = the fault was actually delivered (the k-th call happened); distinct = distinct (configuration, fault plan)",
    assumptions=["faults are returned instead of performing the system call (close(2) is performed and then reported as failed)", "EAGAIN is injected in LT mode only (in ET no new edge would follow a faked EAGAIN)", "engine-level failures such as EMFILE on accept stop the engine by design and are not injected"],
    overlay=["verifx/c18", "internal/vshim", "pkg/netpoll/zz_verif_vshim_poll_opt.go"] + FX_OVERLAY,
    instrument=SHIM_INSTR,
    max_parallel=12,
    jobs=engine_jobs("c18", "./verifx/c18", [
        dict(id="enumerate", run="^TestC18Enumerate$", rapid=False, quick=dict(shards=6, timeout=900), thorough=dict(shards=8, timeout=3400)),
        dict(id="client", run="^TestC18Client$", rapid=False, quick=dict(shards=4, timeout=900), thorough=dict(shards=6, timeout=3400)),
        dict(id="random", run="^TestC18Random$", quick=dict(shards=3, checks=40, timeout=900, shrinktime=30), thorough=dict(shards=4, checks=1500, timeout=3400, shrinktime=300)),
        dict(id="udpclient", run="^TestC18UDPClient$", quick=dict(shards=2, checks=300, timeout=900, shrinktime=30), thorough=dict(shards=4, checks=4000, timeout=3400, shrinktime=300)),
        dict(id="udp", run="^TestC18UDP$", quick=dict(shards=2, checks=400, timeout=900, shrinktime=30), thorough=dict(shards=4, checks=4000, timeout=3400, shrinktime=300)),
    ]),
)

# ---- extensions of the fifth round (generators added to existing checks) ----
SPECS["C03"]["rule"] += ("; layer B additionally: bursts of registrations (EventLoop.Register/Enroll, Engine.Register, Client.Dial/Enroll) from 1..4 goroutines while a further goroutine keeps the same loops draining Execute/Wake requests - one result and one OnOpen on the owning loop's goroutine per accepted call; "
                         "empty asynchronous writes (nil / zero-length buffer or vector) owe their callback exactly once")
SPECS["C04"]["rule"] += ("; I/O-error generator: the write of the OnOpen reply, the first write inside OnTraffic or the first read is made to fail (shim; ECONNRESET/EPIPE/ETIMEDOUT), optionally the handler writes from inside OnClose and that write fails too: exactly one OnOpen and one OnClose with a non-nil error, no traffic afterwards, "
                         "CountConnections = bystanders, bystanders closed only by the stop and with a nil error")
SPECS["C05"]["rule"] += ("; client generator: Client.Dial/Enroll calls from 1..4 goroutines race Client.Stop while a handler keeps a loop busy for 0/700/1200 ms (shared driver verifx/clix) under the race detector")
SPECS["C07"]["rule"] += ("; fifth generator: a Client's Dial/Enroll calls (tcp, unix, udp) race Client.Stop, optionally with a loop kept busy for 100..1200 ms: the descriptor table returns to its state and the framework never calls close(2) on a number that is not open")
SPECS["C08"]["rule"] += ("; a quarter of the handler modes first call SendTo with 70000 bytes (must fail, no byte count) before the reply")
SPECS["C12"]["rule"] += ("; the buffers machine releases mixed buffers once or twice and keeps using them; engine sessions also drain with Conn.WriteTo")
SPECS["C17"]["rule"] += ("; engine sessions: tcp4/tcp6/unix with 1..3 listeners (default and poll_opt builds), zone listeners; UDP events: 2..5 sender sockets sharing one IP (udp4, udp6, [::1%lo], link-local%zone), 4..40 datagrams alternating or drawn, optionally queued behind a handler that stalls on the first one; "
                         "every event's RemoteAddr = the sender socket's own address, LocalAddr = the listen address, replies by Write or SendTo(c.RemoteAddr()) arrive at their sender")
SPECS["C18"]["rule"] += ("; the same table for Client connections (Dial / Enroll, tcp and unix: a failing registration must be reported to the caller as an error); connected client UDP sockets: the k-th recvfrom/read, send, or the send of the OnOpen reply fails on one of 1..4 sockets; "
                         "scenario 'good-bye': the first read fails and the write the handler issues inside OnClose fails too - still one OnClose, no close(2) on a number that is not open")
SPECS["C19"]["rule"] += ("; client state machine: Dial/DialContext/Enroll/EnrollContext over tcp, unix and udp while running, racing Client.Stop (0..3 goroutines, optional busy loop) and after it - a connection or an error, never both; one OnOpen per connection handed out; errors only once the stop is under way; "
                         "control-API cases with the worker pool exhausted during the running phase (Register/Enroll refused with the pool's error, or result owed)")
SPECS["C14"]["rule"] += ("; deletions are also aimed at matrix positions (the last and first columns of the rows at and below the next-free slot), since registration order and position part company after the first compaction")
SPECS["C15"]["rule"] += ("; the policy half also draws address strings forged to have a boundary CRC-32 value (0, 1, 0x7FFFFFFF, 0x80000000, 0x80000001, 0xFFFFFFFE, 0xFFFFFFFF); "
                         "the engine half, under Source-Addr-Hash, also registers connections through Engine.Register (a net.Conn, optionally with a differing net.Addr in the context): all connections registered to one target share a loop")
SPECS["C03"]["rule"] += ("; Wake / CloseWithCallback / AsyncWrite / Close scripts of 2..6 requests per connection issued back to back, so that later requests are carried out after an earlier one has closed the connection: every accepted request's callback runs exactly once")
SPECS["C04"]["rule"] += ("; client UDP generator: 0/2/8 goroutines are inside AsyncWrite while a socket is closed, and a stale AsyncWrite must complete with the closed-connection error (an EBADF would mean the request reached the descriptor number)")
SPECS["C06"]["rule"] += ("; the OnClose+writeerr source draws the failing call (Write / Writev / ReadFrom+Flush); the OnTraffic source may be answered by a connected UDP socket (Client.Dial on a client, Engine.Register with a UDP address on a server engine); the Wake source with or without a callback")
