"""Free-text parts of MANIFEST.json, per property."""
NOT_CLAIMED = {}
DESIGN_REF = {}
NOTES = ("All checks are generated-input searches against explicit oracles (DESIGN.md). Exit 2 / an INCONCLUSIVE line means "
         "infrastructure trouble or an exhausted time budget, never a verdict. Genuine defects found are repaired by `fix:` commits in /repo "
         "and listed in known_findings.txt.")
LEVEL_TEXT = {}
LEVEL_NOTE = {}

LEVEL_TEXT["C20"] = ("Exploration with an exhaustive part: every function is compared with a loop-based reference on a boundary table "
                     "(2^k+d, k=0..62), on rapid-drawn 64-bit values, and (thorough) on every signed 32-bit int / every pool size 1..2^31; "
                     "GFD pack/unpack round-trips on drawn field values. Pure functions of one int, so sampling plus the full 32-bit sweep is the right level.")
LEVEL_NOTE["C20"] = "Trusts the reference functions in the harness and a 64-bit int; 64-bit values beyond the 32-bit range are sampled, not enumerated."
