"""Free-text parts of MANIFEST.json, per property."""
NOT_CLAIMED = {}
DESIGN_REF = {}
NOTES = ("All checks are generated-input searches against explicit oracles (DESIGN.md). Exit 2 / an INCONCLUSIVE line means "
         "infrastructure trouble or an exhausted time budget, never a verdict. Genuine defects found are repaired by `fix:` commits in /repo "
         "and listed in known_findings.txt.")
LEVEL_TEXT = {}
LEVEL_NOTE = {}

LEVEL_TEXT["C20"] = ("Exploration with an exhaustive part: every function is compared with a loop-based reference on a boundary table "
                     "(2^k+d, k=0..62), on rapid-drawn 64-bit values, and (thorough) on every signed 32-bit int / every pool size 1..2^31; "
                     "GFD pack/unpack round-trips on drawn field values. Pure functions of one int, so sampling plus the full 32-bit sweep is the right level.")
LEVEL_NOTE["C20"] = "Trusts the reference functions in the harness and a 64-bit int; 64-bit values beyond the 32-bit range are sampled, not enumerated."

LEVEL_TEXT["C09"] = ("Exploration: rapid state machines drive ring.Buffer through generated operation sequences (all 11 operations, boundary-biased sizes, "
                     "scripted readers/writers covering every behaviour io.Reader/io.Writer permit) and compare content (via a non-consuming Peek of everything), "
                     "counters and flags with a byte-slice model after every step; failures shrink to a minimal operation sequence. "
                     "A data structure with unbounded histories: sampling against a model is the applicable level.")
LEVEL_NOTE["C09"] = "Trusts the byte-slice model and the scripted reader/writer (both in the harness); sizes bounded by 9000 bytes per operation, sequences by rapid's step budget."

LEVEL_TEXT["C10"] = ("Exploration: rapid state machines for the lazily allocated elastic.RingBuffer (C09 alphabet + Done) and for the mixed ring/list elastic.Buffer "
                     "(Write, Writev with up to 3000 segments, ReadFrom, Read, Peek, Discard, WriteTo, Reset, Release; seven static-size limits) compared with a byte-slice model "
                     "after every step via a non-consuming Peek of everything. Unbounded histories over a composite data structure: model-based sampling is the applicable level.")
LEVEL_NOTE["C10"] = "Trusts the byte-slice model and scripted readers/writers; per-operation sizes up to 70 KB; the global ring-buffer and byte-slice pools are shared across cases (as in production)."
LEVEL_TEXT["C11"] = ("Exploration: a rapid state machine drives linkedlist.Buffer through all 11 operations with segment-boundary-biased sizes and scripted readers/writers and compares "
                     "content, Buffered, Len and IsEmpty with a list-of-segments model after every step; pushed slices are scribbled over after the call to check copy semantics.")
LEVEL_NOTE["C11"] = "Trusts the segment-list model; PeekWithBytes is checked strictly for requests within the list's own content and leniently (error or correct bytes) for requests that need the extra slices."

LEVEL_TEXT["C12"] = ("Exploration: rapid state machines over the byte-slice pool (fresh Pool and the global one; Get / Put of exact, re-sliced-tail, foreign odd-capacity and empty slices / GC), "
                     "a generated multi-goroutine Get/Put script, and a mixed ring-pool + byte-slice-pool machine whose ring writes force growth (which recycles storage through the byte-slice pool). "
                     "Oracle: a ledger of memory ranges (handed-out ranges pairwise disjoint, every Get inside one returned range or fresh memory) plus canary patterns over the full capacity.")
LEVEL_NOTE["C12"] = "Addresses are compared while the harness keeps every slice reachable; allocation sizes up to 2^20 (the size-class arithmetic up to 2^31 is C20); engine-level consequences are covered by the content oracles of C01/C02."

LEVEL_TEXT["C14"] = ("Exploration: a rapid state machine drives the registry (compiled twice: default map, gc_opt compacting matrix) through add/remove/lookup/iterate/iterate-and-remove-all "
                     "sequences and compares every lookup, the count and the iteration set with a Go map; for the matrix each live connection's stored (row, column) must point at itself. "
                     "A second generator builds populations just around 65536 entries to cross the row boundary.")
LEVEL_NOTE["C14"] = "Internal test file overlaid into package gnet (uses addConn/delConn/getConn/iterate/loadCount and, for the matrix, its fields); bare conn values; both build variants."

LEVEL_TEXT["C16"] = ("Exploration: parseProtoAddr is driven with grammar-generated well-formed addresses (oracle: lower-cased scheme and the endpoint exactly as written / path.Clean of the written path), "
                     "four classes of ill-formed addresses (oracle: the documented error), arbitrary strings (oracle: no panic; nil error implies supported scheme and non-empty endpoint; errors are the two documented ones or a URL parse error) "
                     "and, thorough tier, a native coverage-guided fuzz target with the same predicate; option normalisation is compared with a reference normaliser for boundary-biased ints through createListeners and NewClient.")
LEVEL_NOTE["C16"] = "Internal test file overlaid into package gnet (parseProtoAddr, createListeners, determineEventLoops, Client.opts). '?'/'#' inside unix paths and option values above 2^62 are outside the generated domain."
LEVEL_TEXT["C15"] = ("Exploration: each balancer is driven over 1..256 bare loops with generated accept/close/open-elsewhere histories and address values and checked against the policy definition on every call "
                     "(RR: i mod N; LC: minimal count at call time; SAH: equal address strings give equal loops; always a registered loop). "
                     "The engine half runs generated accept/close sequences against a real reactor-mode engine and judges the loop identity of every accepted connection by the same rules (cyclic for RR, minimal live count for LC, equal loops for equal remote address strings for SAH).")
LEVEL_NOTE["C15"] = "Policy half uses an internal test overlaid into package gnet with bare eventloop values; the engine half observes loop identities through Conn.EventLoop() in reactor mode (tcp/unix; Unix-domain clients bound to re-used paths for Source-Addr-Hash) and checks that every callback of a connection runs on the goroutine of its assigned loop."
LEVEL_TEXT["C17"] = ("Exploration: generated IP/port/zone/Unix addresses are converted to the kernel socket-address form and back (both directions checked: the kernel form itself and the round trip, zones by interface index and textual form); "
                     "invalid IP lengths, unsupported Unix networks and unknown address types must yield nil without panic. Engine-level sessions compare RemoteAddr/LocalAddr with the peers' own addresses under connection churn.")
LEVEL_NOTE["C17"] = "Zone names that are neither an existing interface nor a decimal number have no kernel representation and are outside the domain; numeric zones below 0xFFFFFF."

LEVEL_TEXT["C13"] = ("Exploration over schedules: the unmodified queue source (its sync/atomic calls re-qualified to yielding wrappers at check time) runs under a cooperative scheduler owned by the harness, so the interleaving of single atomic "
                     "operations is a generated, shrinkable input (random walk, PCT, and every schedule with <= 2-3 pre-emptions for all 2-thread x 2-operation scripts); each call/return history is decided by porcupine against a sequential FIFO model, "
                     "plus quiescent Length/IsEmpty, drain-exactly-once and per-producer order. A -race stress run with real goroutines supplements it.")
LEVEL_NOTE["C13"] = "Sampling, not enumeration, beyond the bounded-exhaustive scripts; assumes all shared accesses are sync/atomic function calls (scheduling points are inserted there); trusts porcupine v1.3.0."
LEVEL_TEXT["C03"] = ("Exploration over schedules: layer A runs the real Trigger/Polling code of both epoll pollers (atomics, queue operations and eventfd/epoll system calls are scheduling points; the eventfd and epoll objects are the real kernel ones) "
                     "under the harness-owned scheduler and checks at quiescence - loop parked in epoll_wait with nothing ready - that every accepted request ran exactly once on the loop thread and high-priority requests of a producer ran in issue order; "
                     "layer B drives the engine's asynchronous API from several goroutines with generated scripts and checks exactly-once effects/callbacks and issue order at the peer.")
LEVEL_NOTE["C03"] = "kqueue pollers cannot execute on Linux; interleavings are sampled (random walk / PCT) and enumerated only up to 2 pre-emptions for the smallest configurations; a bounded-unfairness rule (a thread is passed over after 64 consecutive steps) is needed because the loop legitimately spins while a producer sits between linking a node and publishing the queue length."

LEVEL_TEXT["C01"] = ("Exploration: every case starts a real engine (all I/O modes, 1..8 loops, both acceptor modes, tcp/unix, server and client side, four build-tag sets), connects 1..4 peers with generated segmentations and endings, "
                     "and runs generated per-callback consumption scripts; the oracle is position-dependent stream content plus the conservation invariant consumed + InboundBuffered, checked after every read operation inside the callbacks, "
                     "completeness at OnClose after an orderly close, and the stall rule for lock-step delivery. Quantifies over kernel segmentations and schedules that cannot be enumerated: sampling with a sound oracle is the level.")
LEVEL_NOTE["C01"] = "Real loop-back sockets; read sizes are controlled through lock-step segments and, in LT mode, by the system-call shim that hands the kernel a generated share of the read buffer; liveness is bounded (8 s stall rule, confirmed by re-running the case)."

LEVEL_TEXT["C02"] = ("Exploration: every case starts a real engine with small send buffers / WriteBufferCap values and runs generated batches of Write, Writev (up to 3000 slices), ReadFrom+Flush, AsyncWrite(v) from inside callbacks and from external producer goroutines "
                     "(including gated producers that build backlogs beyond the 1024-request threshold) against a peer with a generated reading schedule (stalls, trickle reads, 'wait until OutboundBuffered >= x'); "
                     "oracle: received stream = accepted records in effect order, per-producer issue order of async writes, OutboundBuffered bounds inside every callback and 0 after the drain, stall rule for 'accepted data is eventually sent'.")
LEVEL_NOTE["C02"] = "Real loop-back sockets; the exact OutboundBuffered clause uses the byte count of the system-call shim (write/writev call sites re-qualified at check time), which also produces real short writes and, in LT mode, EAGAIN; liveness is bounded (8 s, confirmed by re-running the case)."

LEVEL_TEXT["C04"] = ("Exploration: generated connection histories (every close cause, closes requested from inside OnOpen/OnTraffic, 2..3 causes fired concurrently, engine shutdown with open connections, a second wave of connections that re-uses the freed descriptor numbers, stale Wake/Close/AsyncWrite on closed connections) "
                     "run against a real engine in every configuration; the recorded callback log is judged by the automaton Open (Traffic)* Close with identity/loop/goroutine checks, the OnClose-error rule, net.ErrClosed for stale async writes, silence on bystander connections and CountConnections at quiescent points.")
LEVEL_NOTE["C04"] = "Racing causes are real-scheduler races (many repeats, not enumerated); connected client UDP sockets are exercised by the C08 harness; liveness clauses use the 8 s stall rule."
LEVEL_TEXT["C07"] = ("Exploration: the C04 history generator plus Conn.Dup/Engine.Dup, one engine start/stop per case, judged by three oracles that do not depend on callbacks: the process descriptor table before vs after, canary socket pairs that occupy a descriptor number right after the framework released it "
                     "(so any later read/write/close through the stale number is visible), and user-owned duplicates that must survive. A second generator stops the engine under a connect flood.")
LEVEL_NOTE["C07"] = "Known finding listed in known_findings.txt (accepted sockets handed to an exited sub-reactor leak at shutdown; excluded by classification and counted). A ledger of every system call (shim) is not part of this check; canaries see only descriptor numbers that were re-occupied in time."

LEVEL_TEXT["C06"] = ("Exploration: generated shutdown source (Engine.Stop, package Stop, Shutdown action from OnOpen/OnTraffic/OnClose/OnTick/Wake-induced OnTraffic, OnBoot, Client.Stop), moment and concurrent activity (idle/streaming/back-pressured connections, connect flood, async producers, slow OnTick, backlog of queued requests, Run and Rotate) "
                     "against a real engine; oracle: return without error within the bound, one OnClose per opened connection by then, exactly one OnShutdown, no callback observed after the return (including a still-running OnTick), listener refuses connections, OnBoot variant starts nothing.")
LEVEL_NOTE["C06"] = "Bounded liveness (10 s, confirmed by re-running the case); connect floods stop 3 ms after the request (an endless flood that outpaces the acceptor starves its request queue - noted in DESIGN.md, not judged); 'never again' is observed until the end of the session plus a grace period."

LEVEL_TEXT["C08"] = ("Exploration: real UDP listeners (udp4/udp6, 1..4 loops, four read-buffer sizes, default and poll_opt builds) receive generated self-describing datagrams of boundary sizes (0, 1, around the MTU, read-buffer size -1/+0, 65507) from 1..6 concurrent senders while a generated handler script consumes all/part/none and replies with Write and SendTo; "
                     "each event, each reply at each sender, and each SendTo delivery at the third socket is compared byte for byte and counted (exactly once).")
LEVEL_NOTE["C08"] = "Assumes loop-back UDP does not drop within the harness's in-flight bound (64 KiB, socket buffers raised to 4 MiB); a reply missing for 3 s is reported as a lost event; payloads above the read-buffer size are outside the statement."

LEVEL_TEXT["C19"] = ("Exploration: generated call sequences on an engine handle before start, while running (1..4 goroutines), right after a shutdown request (live or expired context, optionally with a connection that needs 700 ms to close) and after the shutdown, "
                     "judged by a state x call -> allowed-results table, the exactly-one-result / usable-connection rule for Register and Enroll, run-once for runnables, and 'Stop returns nil only when every opened connection is closed and OnShutdown has run; an expired context returns its error and the shutdown still completes'.")
LEVEL_NOTE["C19"] = "Calls issued while the shutdown is in progress may legitimately see either answer (Dup may also fail with a system-call error); a Register accepted during shutdown may never deliver (same class as the C07 known finding) and is not judged; client handles are not exercised."

LEVEL_TEXT["C05"] = ("Exploration under the race detector: each case runs a real multi-loop engine (-race build, default and poll_opt+gc_opt) with echo traffic while 4..12 goroutines issue generated mixes of every operation the property lists as concurrency-safe, on live and already closed connections and across Engine.Stop; "
                     "a data-race report whose two access stacks are both inside the framework is a violation (signature = the two innermost framework functions), and a per-loop record checks one goroutine per loop, distinct goroutines for distinct loops, no overlapping callbacks and no loop change.")
LEVEL_NOTE["C05"] = "The detector sees only executed schedules; races involving harness frames are reported as infrastructure trouble, not as verdicts; -d=checkptr=0 for the poll_opt build (its unaligned epoll_event.data access trips checkptr, which is not a data race); Engine.Dup/DupListener are not in the property's list and are not raced against Stop."

LEVEL_TEXT["C18"] = ("Fault enumeration: the framework's unix.* call sites on the I/O path are re-qualified at check time to wrappers that can make the k-th call at a chosen site on the victim's descriptor fail with a chosen errno (read, write, writev in conn.write/writev/open, eventloop.write and the residual flush of eventloop.close, accept4, epoll_ctl ADD/MOD/DEL, close, epoll_wait); "
                     "the table site x errno x k x configuration is walked systematically (quick: first errno, k <= 2; thorough: all errnos, k <= 8) and sampled with pairs of faults, while 2..4 bystanders carry verified echo traffic; oracle: fatal faults close exactly the victim with one OnClose(non-nil), "
                     "registration faults never open it, transient ones are invisible, the engine keeps serving, a stale AsyncWrite completes with net.ErrClosed, and a ledger of accept4/close shows every accepted descriptor closed exactly once with no I/O after the close.")
LEVEL_NOTE["C18"] = "Faults replace the system call (except close); EAGAIN only in LT mode; UDP sites (recvfrom/sendto) are wrapped but not enumerated; whether the k-th call at a site happens depends on real scheduling, cases whose fault was not reached are counted as not delivered."
