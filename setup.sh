#!/bin/sh
# Offline setup: builds the instrumenter and warms the Go build cache for the
# harness (standard library, rapid, the staged gnet packages). Idempotent.
set -e
cd "$(dirname "$0")"
export GOFLAGS= GOPROXY=off GOSUMDB=off GOTOOLCHAIN=local
mkdir -p bin evidence replays
(cd tools/instr && go build -o ../../bin/instr .)
# warm the cache with the cheapest check's build (no test is run)
W=$(mktemp -d); VERIF_EVIDENCE_DIR=$W VERIF_REPLAY_DIR=$W ./check C20 --only '^c20$' >/dev/null 2>&1 || true; rm -rf $W
echo "setup done"
